// Package node is the simulated node: one OS process = one incarnation = one synctest bubble.
// It executes the operations of one incarnation of a plan against the real SigLens packages and writes
// a journal the driver evaluates. It draws no randomness of its own.
package node

import (
	"encoding/json"
	"fmt"
	"os"
	"runtime"
	"strconv"
	"strings"
	"sync"
	"testing"
	"testing/synctest"
	"time"

	"simlens/plan"
	"simlens/simfs"
	"simlens/simrt"
	"simlens/world"
)

var (
	jmu     sync.Mutex
	journal *os.File
	incIdx  int
)

func jwrite(e *plan.Entry) {
	e.Inc = incIdx
	if e.Seq == 0 {
		if simrt.On() {
			e.Seq = simrt.Seq()
		} else {
			e.Seq = simrt.Tick()
		}
	}
	e.SimMs = time.Now().UnixMilli()
	e.FsOps = simfs.MutOps()
	b, err := json.Marshal(e)
	if err != nil {
		b, _ = json.Marshal(&plan.Entry{Inc: incIdx, Idx: e.Idx, Kind: e.Kind, Err: "journal-encode: " + err.Error()})
	}
	b = append(b, '\n')
	jmu.Lock()
	_, _ = journal.Write(b)
	jmu.Unlock()
}

func TestSim(t *testing.T) {
	planPath := os.Getenv("SIM_PLAN")
	if planPath == "" {
		t.Skip("SIM_PLAN not set")
	}
	p, err := plan.Load(planPath)
	if err != nil {
		fmt.Fprintf(os.Stderr, "SIM-HARNESS plan: %v\n", err)
		os.Exit(70)
	}
	incIdx, _ = strconv.Atoi(os.Getenv("SIM_INC"))
	if incIdx >= len(p.Incs) {
		fmt.Fprintf(os.Stderr, "SIM-HARNESS inc out of range\n")
		os.Exit(70)
	}
	journal, err = os.OpenFile(os.Getenv("SIM_JOURNAL"), os.O_CREATE|os.O_APPEND|os.O_WRONLY, 0o644)
	if err != nil {
		fmt.Fprintf(os.Stderr, "SIM-HARNESS journal: %v\n", err)
		os.Exit(70)
	}
	inc := &p.Incs[incIdx]
	if p.Knobs.Sched {
		go spinWatchdog()
	}
	synctest.Test(t, func(t *testing.T) {
		runInc(p, inc)
	})
}

const clockFile = "clock"

func runInc(p *plan.Plan, inc *plan.Incarnation) {
	// Simulated time continues where the previous incarnation stopped (plus one second of downtime).
	if b, err := os.ReadFile(clockFile); err == nil {
		if ms, err := strconv.ParseInt(strings.TrimSpace(string(b)), 10, 64); err == nil {
			if d := time.UnixMilli(ms).Sub(time.Now()); d > 0 {
				time.Sleep(d + time.Second)
			}
		}
	}
	var faults []simfs.Fault
	for _, f := range inc.Faults {
		faults = append(faults, simfs.Fault{Kind: f.Kind, At: f.At, N: f.N, Err: f.Err, Path: f.Path})
	}
	police := p.Params["path_police"] == true
	roots := []string{"."}
	if police {
		// the configured data and log directories, nothing else (not even the scratch directory around them)
		roots = []string{"d", "logs"}
	}
	simfs.Init(roots, faults, os.Getenv("SIM_FSTRACE") != "" || p.Params["fs_trace"] == true, police)
	simfs.OnCrash = func(k int) {
		saveClock()
		jwrite(&plan.Entry{Idx: "crash", Kind: "crash", Data: mustJSON(map[string]any{"k": k, "op": simfs.LastOp()})})
	}
	k := p.Knobs
	if k.StatfsFreePct > 0 {
		total := uint64(1 << 40)
		simfs.SetCapacity(total/100*uint64(k.StatfsFreePct), total, 1<<30, 1<<31)
	}
	simrt.OnHang = func(dump string) {
		saveClock()
		jwrite(&plan.Entry{Idx: "hang", Kind: "hang", Err: dump})
	}
	simrt.OnDeadlock = func(dump string) {
		saveClock()
		jwrite(&plan.Entry{Idx: "deadlock", Kind: "deadlock", Err: dump})
	}
	simrt.Init(simrt.Config{
		On: k.Sched, Choices: inc.Choices, Seed: inc.SchedSeed, PreemptPermille: k.PreemptPermille,
		DelayPermille: k.DelayPermille, DelayLen: k.DelayLen, DelaySites: k.DelaySites,
		Procs: k.Procs, MapSeed: inc.SchedSeed, MaxDecisions: maxDecisions(&k, inc.Ops),
	})
	world.Reinit()
	simrt.Run(func() {
		mode := inc.Boot
		if mode == "" {
			mode = "lite"
		}
		var err error
		world.SeedRandom(p.Seed, incIdx)
		if mode != "none" {
			err = world.Boot(mode, &p.Knobs)
		}
		if err == nil && mode != "none" {
			// start-up recovery runs in background goroutines (initSyncSegMetaForAllIds, metadata
			// refresh): clients arrive two simulated seconds after the listener is up
			simrt.SetOpBudget(10 * time.Minute)
			simrt.Sleep(2 * time.Second)
			simrt.ClearOpBudget()
		}
		e := &plan.Entry{Idx: "boot", Kind: "boot"}
		if err != nil {
			e.Err = err.Error()
		}
		jwrite(e)
		if err == nil {
			for i := range inc.Ops {
				runOp(fmt.Sprint(i), &inc.Ops[i])
			}
		}
		finish()
	})
	os.Exit(0)
}

func saveClock() {
	_ = os.WriteFile(clockFile, []byte(fmt.Sprint(time.Now().UnixMilli())), 0o644)
}

func finish() {
	saveClock()
	end := map[string]any{
		"fs_ops":      simfs.MutOps(),
		"fired":       simfs.Fired(),
		"sched":       simrt.Stats(),
		"fingerprint": fmt.Sprintf("%016x", simrt.Fingerprint()),
		"escapes":     simfs.Escapes(),
		"error_logs":  world.ErrorLogCounts(),
	}
	if tr := simfs.Trace(); len(tr) > 0 {
		end["fs_trace"] = tr
	}
	if tr := simrt.Trace(); len(tr) > 0 {
		end["sched_trace"] = tr
	}
	jwrite(&plan.Entry{Idx: "end", Kind: "end", Data: mustJSON(end)})
	os.Exit(0)
}

func mustJSON(v any) json.RawMessage {
	b, err := json.Marshal(v)
	if err != nil {
		b, _ = json.Marshal(map[string]string{"encode_error": err.Error()})
	}
	return b
}

// runOp executes one operation and journals its return.
func runOp(idx string, op *plan.Op) {
	if op.Kind == "par" {
		runPar(idx, op)
		return
	}
	budget := 30 * time.Minute
	if op.Kind == "advance" {
		budget += time.Duration(op.DurMs) * time.Millisecond
	}
	simrt.SetOpBudget(budget)
	data, err := world.Exec(op)
	simrt.ClearOpBudget()
	e := &plan.Entry{Idx: idx, Kind: op.Kind}
	if err != nil {
		e.Err = err.Error()
		if e.Err == "" {
			e.Err = "error"
		}
	}
	if data != nil {
		e.Data = mustJSON(data)
	}
	jwrite(e)
}

// runPar runs the client lists of a par op as concurrent tasks and waits for all of them. Each client op
// journals an invoke and a return entry stamped with the global event sequence number.
func runPar(idx string, op *plan.Op) {
	var wg simrt.WaitGroup
	simrt.SetOpBudget(2 * time.Hour)
	for c := range op.Par {
		c := c
		wg.Add(1)
		simrt.Go(fmt.Sprintf("client%d", c), func() {
			defer wg.Done()
			for i := range op.Par[c] {
				o := &op.Par[c][i]
				id := fmt.Sprintf("%s.%d.%d", idx, c, i)
				simrt.Yield("client-invoke")
				jwrite(&plan.Entry{Idx: id, Kind: o.Kind, Phase: "invoke"})
				data, err := world.Exec(o)
				simrt.Yield("client-return")
				e := &plan.Entry{Idx: id, Kind: o.Kind, Phase: "return"}
				if err != nil {
					e.Err = err.Error()
				}
				if data != nil {
					e.Data = mustJSON(data)
				}
				jwrite(e)
			}
		})
	}
	wg.Wait()
	simrt.ClearOpBudget()
	jwrite(&plan.Entry{Idx: idx, Kind: "par"})
}

// spinWatchdog runs outside the bubble on the real clock. Every step of the simulation takes
// milliseconds of wall time; if no scheduling decision is taken for spinLimit seconds, the baton holder is
// executing without ever reaching a yield point (an unbounded loop in the system under test): report a
// hang with the stack of the running goroutine instead of waiting for the driver's wall-clock watchdog.
const spinLimit = 25

func spinWatchdog() {
	last := simrt.Seq()
	idle := 0
	for {
		time.Sleep(time.Second)
		cur := simrt.Seq()
		if cur != last {
			last, idle = cur, 0
			continue
		}
		idle++
		if idle < spinLimit {
			continue
		}
		buf := make([]byte, 1<<20)
		n := runtime.Stack(buf, true)
		dump := "no scheduling decision for 25 s of wall time: the running task never reaches a yield point (spin)\n"
		for _, g := range strings.Split(string(buf[:n]), "\n\n") {
			if strings.Contains(g, "[running") || strings.Contains(g, "[runnable") {
				if !strings.Contains(g, "spinWatchdog") {
					dump += g + "\n\n"
				}
			}
		}
		if len(dump) > 6000 {
			dump = dump[:6000]
		}
		jwrite(&plan.Entry{Idx: "hang", Kind: "hang", Err: dump})
		fmt.Fprintf(os.Stderr, "SIM-HANG spin\n%s\n", dump)
		os.Exit(78)
	}
}

// advanceSeconds: simulated time the plan itself asks for; the ~40 one-second background loops cost
// scheduling decisions per simulated second, so the livelock budget grows with it.
func advanceSeconds(ops []plan.Op) uint64 {
	var n uint64
	for i := range ops {
		if ops[i].Kind == "advance" {
			n += uint64(ops[i].DurMs/1000) + 1
		}
		for _, c := range ops[i].Par {
			n += advanceSeconds(c)
		}
	}
	return n
}

func maxDecisions(k *plan.Knobs, ops []plan.Op) uint64 {
	if k.MaxDecisions > 0 {
		return uint64(k.MaxDecisions) + advanceSeconds(ops)*3000
	}
	return 5_000_000 + advanceSeconds(ops)*3000
}
