package simrt

import (
	"fmt"
	"reflect"
)

// keyLess orders two map keys of the same dynamic type canonically (integers numerically, strings
// bytewise, structs and arrays field-wise, everything else by its %v rendering).
func keyLess(a, b interface{}) bool {
	return cmpVal(reflect.ValueOf(a), reflect.ValueOf(b)) < 0
}

func cmpVal(a, b reflect.Value) int {
	if a.Kind() != b.Kind() {
		sa, sb := fmt.Sprintf("%T:%v", a.Interface(), a.Interface()), fmt.Sprintf("%T:%v", b.Interface(), b.Interface())
		switch {
		case sa < sb:
			return -1
		case sa > sb:
			return 1
		}
		return 0
	}
	switch a.Kind() {
	case reflect.Int, reflect.Int8, reflect.Int16, reflect.Int32, reflect.Int64:
		x, y := a.Int(), b.Int()
		switch {
		case x < y:
			return -1
		case x > y:
			return 1
		}
		return 0
	case reflect.Uint, reflect.Uint8, reflect.Uint16, reflect.Uint32, reflect.Uint64, reflect.Uintptr:
		x, y := a.Uint(), b.Uint()
		switch {
		case x < y:
			return -1
		case x > y:
			return 1
		}
		return 0
	case reflect.Float32, reflect.Float64:
		x, y := a.Float(), b.Float()
		switch {
		case x < y:
			return -1
		case x > y:
			return 1
		}
		return 0
	case reflect.String:
		x, y := a.String(), b.String()
		switch {
		case x < y:
			return -1
		case x > y:
			return 1
		}
		return 0
	case reflect.Bool:
		x, y := a.Bool(), b.Bool()
		switch {
		case !x && y:
			return -1
		case x && !y:
			return 1
		}
		return 0
	case reflect.Struct:
		for i := 0; i < a.NumField(); i++ {
			if c := cmpVal(a.Field(i), b.Field(i)); c != 0 {
				return c
			}
		}
		return 0
	case reflect.Array:
		for i := 0; i < a.Len(); i++ {
			if c := cmpVal(a.Index(i), b.Index(i)); c != 0 {
				return c
			}
		}
		return 0
	case reflect.Interface:
		if a.IsNil() || b.IsNil() {
			switch {
			case a.IsNil() && !b.IsNil():
				return -1
			case !a.IsNil() && b.IsNil():
				return 1
			}
			return 0
		}
		return cmpVal(a.Elem(), b.Elem())
	default:
		sa, sb := fmt.Sprintf("%v", a), fmt.Sprintf("%v", b)
		switch {
		case sa < sb:
			return -1
		case sa > sb:
			return 1
		}
		return 0
	}
}
