package simrt

import (
	"fmt"
	"os"
	"sync"
)

// The types below have the method sets of their sync counterparts. Scheduler off: they delegate to the
// real primitive. Scheduler on: blocking is known to the decision loop (a task waiting for a lock is not
// runnable), Lock/RLock/Wait are yield points, and a cycle in the wait-for graph is reported as a deadlock.

type Mutex struct {
	real    sync.Mutex
	owner   *Task
	waiters []*Task
}

// OnDeadlock is called (scheduler on) when a lock acquisition closes a cycle in the wait-for graph.
var OnDeadlock func(dump string)

func blockOnLocked(t *Task, on interface{}) {
	t.st = stBlockedLock
	t.waitOn = on
	// wait-for cycle detection over mutex owners
	seen := map[*Task]bool{t: true}
	w := on
	for w != nil {
		var o *Task
		switch x := w.(type) {
		case *Mutex:
			o = x.owner
		case *RWMutex:
			o = x.writer
		}
		if o == nil {
			break
		}
		if seen[o] {
			dump := "DEADLOCK (wait-for cycle)\n" + dumpLocked()
			mu.Unlock()
			if OnDeadlock != nil {
				OnDeadlock(dump)
			}
			fmt.Fprintf(os.Stderr, "SIM-DEADLOCK\n%s\n", dump)
			os.Exit(79)
		}
		seen[o] = true
		if o.st != stBlockedLock {
			break
		}
		w = o.waitOn
	}
}

func wakeAllLocked(ws []*Task) {
	for _, w := range ws {
		if w.st == stBlockedLock {
			w.st = stRunnable
			w.waitOn = nil
		}
	}
}

func (m *Mutex) Lock() {
	if !on.Load() {
		m.real.Lock()
		return
	}
	Park("L:" + callerSite(1))
	t := current()
	for {
		mu.Lock()
		if m.owner == nil {
			m.owner = t
			mu.Unlock()
			return
		}
		m.waiters = append(m.waiters, t)
		blockOnLocked(t, m)
		mu.Unlock()
		kickNB()
		<-t.wake
	}
}

func (m *Mutex) TryLock() bool {
	if !on.Load() {
		return m.real.TryLock()
	}
	t := current()
	mu.Lock()
	defer mu.Unlock()
	if m.owner == nil {
		m.owner = t
		return true
	}
	return false
}

func (m *Mutex) Unlock() {
	if !on.Load() {
		m.real.Unlock()
		return
	}
	mu.Lock()
	if m.owner == nil {
		mu.Unlock()
		panic("simrt: unlock of unlocked Mutex")
	}
	m.owner = nil
	ws := m.waiters
	m.waiters = nil
	wakeAllLocked(ws)
	mu.Unlock()
}

type RWMutex struct {
	real    sync.RWMutex
	writer  *Task
	readers int
	waiters []*Task
}

func (m *RWMutex) Lock() {
	if !on.Load() {
		m.real.Lock()
		return
	}
	Park("W:" + callerSite(1))
	t := current()
	for {
		mu.Lock()
		if m.writer == nil && m.readers == 0 {
			m.writer = t
			mu.Unlock()
			return
		}
		m.waiters = append(m.waiters, t)
		blockOnLocked(t, m)
		mu.Unlock()
		kickNB()
		<-t.wake
	}
}

func (m *RWMutex) Unlock() {
	if !on.Load() {
		m.real.Unlock()
		return
	}
	mu.Lock()
	if m.writer == nil {
		mu.Unlock()
		panic("simrt: unlock of unlocked RWMutex")
	}
	m.writer = nil
	ws := m.waiters
	m.waiters = nil
	wakeAllLocked(ws)
	mu.Unlock()
}

func (m *RWMutex) RLock() {
	if !on.Load() {
		m.real.RLock()
		return
	}
	Park("R:" + callerSite(1))
	t := current()
	for {
		mu.Lock()
		if m.writer == nil {
			m.readers++
			mu.Unlock()
			return
		}
		m.waiters = append(m.waiters, t)
		blockOnLocked(t, m)
		mu.Unlock()
		kickNB()
		<-t.wake
	}
}

func (m *RWMutex) RUnlock() {
	if !on.Load() {
		m.real.RUnlock()
		return
	}
	mu.Lock()
	if m.readers <= 0 {
		mu.Unlock()
		panic("simrt: RUnlock of unlocked RWMutex")
	}
	m.readers--
	if m.readers == 0 {
		ws := m.waiters
		m.waiters = nil
		wakeAllLocked(ws)
	}
	mu.Unlock()
}

func (m *RWMutex) TryLock() bool {
	if !on.Load() {
		return m.real.TryLock()
	}
	t := current()
	mu.Lock()
	defer mu.Unlock()
	if m.writer == nil && m.readers == 0 {
		m.writer = t
		return true
	}
	return false
}

func (m *RWMutex) TryRLock() bool {
	if !on.Load() {
		return m.real.TryRLock()
	}
	mu.Lock()
	defer mu.Unlock()
	if m.writer == nil {
		m.readers++
		return true
	}
	return false
}

func (m *RWMutex) RLocker() sync.Locker { return (*rlocker)(m) }

type rlocker RWMutex

func (r *rlocker) Lock()   { (*RWMutex)(r).RLock() }
func (r *rlocker) Unlock() { (*RWMutex)(r).RUnlock() }

type WaitGroup struct {
	real    sync.WaitGroup
	n       int
	waiters []*Task
}

func (w *WaitGroup) Add(d int) {
	if !on.Load() {
		w.real.Add(d)
		return
	}
	mu.Lock()
	w.n += d
	if w.n < 0 {
		mu.Unlock()
		panic("simrt: negative WaitGroup counter")
	}
	if w.n == 0 {
		ws := w.waiters
		w.waiters = nil
		wakeAllLocked(ws)
	}
	mu.Unlock()
}

func (w *WaitGroup) Done() { w.Add(-1) }

func (w *WaitGroup) Wait() {
	if !on.Load() {
		w.real.Wait()
		return
	}
	Park("G:" + callerSite(1))
	t := current()
	for {
		mu.Lock()
		if w.n == 0 {
			mu.Unlock()
			return
		}
		w.waiters = append(w.waiters, t)
		t.st = stBlockedLock
		t.waitOn = w
		mu.Unlock()
		kickNB()
		<-t.wake
	}
}

type Once struct {
	real sync.Once
	m    Mutex
}

// Do serialises callers on a sim mutex and then uses the real Once, so that a Once completed while the
// scheduler was still off (package initialisation) stays completed.
func (o *Once) Do(f func()) {
	if !on.Load() {
		o.real.Do(f)
		return
	}
	o.m.Lock()
	defer o.m.Unlock()
	o.real.Do(f)
}
