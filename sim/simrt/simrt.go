// Package simrt is the seeded cooperative scheduler and the sync-primitive seam of the simulator.
//
// The build-time rewriter turns every `go` statement of /repo into simrt.Go, every sync.Mutex /
// RWMutex / WaitGroup / Once into the same-shaped types of this package, every time.Sleep into
// simrt.Sleep, and inserts simrt.Yield / simrt.Park around channel operations. With the scheduler off
// (the default) all of these delegate to the real primitives, so the node behaves as shipped. With the
// scheduler on, exactly one task executes repo code at a time (it holds the baton) and the only
// decision "who runs next" is taken by the decision loop below from the plan's choice vector and PRNG.
package simrt

import (
	"fmt"
	"hash/fnv"
	"math/rand/v2"
	"os"
	"runtime"
	"sort"
	"strings"
	"sync"
	"sync/atomic"
	"testing/synctest"
	"time"
)

type state int32

const (
	stRunnable state = iota
	stRunning
	stBlockedLock
	stBlockedExt
	stDone
)

func (s state) String() string {
	return [...]string{"runnable", "running", "blocked-lock", "blocked-ext", "done"}[s]
}

// Task is one goroutine known to the scheduler.
type Task struct {
	id      int
	name    string
	gid     uint64
	wake    chan struct{}
	st      state
	site    string
	waitOn  interface{}
	stalled time.Time // not chosen before this simulated instant (stall fault)
	delayed uint64    // not chosen before this decision number (site delay), unless nothing else can run
	fn      func()
	fid     uint64 // fingerprint identity (0 for adopted goroutines)
}

type Config struct {
	On              bool
	Choices         []int
	Seed            uint64
	PreemptPermille int
	Procs           int
	MapSeed         uint64
	MaxDecisions    uint64
	// Site delays ("buggify"): a pseudo-random subset of yield sites (chosen by hashing the site with the
	// seed, DelayPermille of them) holds every task that reaches it back for DelayLen decisions.
	DelayPermille int
	DelayLen      int
	// DelaySites: yield sites whose name contains one of these substrings always hold tasks back (targeted
	// "buggify": e.g. the segment-selection code of a search, so that a rotation can complete inside it)
	DelaySites []string
}

var (
	on        atomic.Bool
	started   atomic.Bool
	mu        sync.Mutex
	tasks     []*Task
	byGid     = map[uint64]*Task{}
	cur       *Task
	kick      chan struct{}
	seq       atomic.Uint64
	cfg       Config
	rng       *rand.Rand
	choicePos int
	fp        = fnv.New64a()
	pending   []*Task // created before Run (package init time)
	mainDone  bool
	switches  uint64
	adopted   int
	stats     = map[string]uint64{}
	// Hang reporting
	OnHang    func(dump string)
	opStart   time.Time
	opBudget  time.Duration
	recentLog []string
)

// Init configures the scheduler. Must be called inside the bubble before Run.
func Init(c Config) {
	cfg = c
	procsKnob.Store(int64(c.Procs))
	mapSeed.Store(c.MapSeed)
	if c.On {
		rng = rand.New(rand.NewPCG(c.Seed, 0x9e3779b97f4a7c15))
		kick = make(chan struct{}, 1)
		on.Store(true)
	}
}

func On() bool { return on.Load() }

// Seq is the global event sequence number: the number of scheduling decisions taken so far (scheduler
// on) or a monotonically increasing counter bumped by Tick (scheduler off).
func Seq() uint64 { return seq.Load() }

// Tick bumps the event counter (used by the harness around client operations when the scheduler is off).
func Tick() uint64 { return seq.Add(1) }

func Fingerprint() uint64 {
	mu.Lock()
	defer mu.Unlock()
	return fp.Sum64()
}

func Stats() map[string]uint64 {
	mu.Lock()
	defer mu.Unlock()
	out := map[string]uint64{"decisions": seq.Load(), "switches": switches, "tasks": uint64(len(tasks)), "adopted": uint64(adopted), "choices_used": uint64(choicePos)}
	for k, v := range stats {
		out[k] = v
	}
	return out
}

func kickNB() {
	select {
	case kick <- struct{}{}:
	default:
	}
}

func goid() uint64 {
	var buf [64]byte
	n := runtime.Stack(buf[:], false)
	// "goroutine 123 ["
	var id uint64
	for _, c := range buf[10:n] {
		if c < '0' || c > '9' {
			break
		}
		id = id*10 + uint64(c-'0')
	}
	return id
}

func newTaskLocked(name string) *Task {
	t := &Task{id: len(tasks), name: name, wake: make(chan struct{}, 1), st: stRunnable}
	if !strings.HasPrefix(name, "adopted#") {
		// the fingerprint identity counts the simulator's own tasks only: whether a worker pool serves a request
		// with a reused or a new goroutine (an adopted task more or less) must not renumber everything after it
		ownTasks++
		t.fid = ownTasks
	}
	tasks = append(tasks, t)
	return t
}

var ownTasks uint64

// current returns the calling goroutine's task, adopting it if it is not yet known (third-party
// goroutines such as gocron's executor or a fasthttp worker entering repo code).
func current() *Task {
	g := goid()
	mu.Lock()
	t := byGid[g]
	if t == nil {
		t = newTaskLocked(fmt.Sprintf("adopted#%d", adopted))
		adopted++
		t.gid = g
		t.st = stRunning
		byGid[g] = t
	}
	mu.Unlock()
	return t
}

// Go is the rewritten `go` statement.
func Go(site string, fn func()) {
	if !on.Load() {
		if !started.Load() {
			// a goroutine started during package initialisation: it must be created inside the bubble
			mu.Lock()
			pending = append(pending, &Task{name: site, fn: fn})
			mu.Unlock()
			return
		}
		go fn()
		return
	}
	mu.Lock()
	t := newTaskLocked(site)
	mu.Unlock()
	launch(t, fn)
	// the creator may be a goroutine the simulator does not schedule (gocron's executor): tell the decision loop
	kickNB()
}

func launch(t *Task, fn func()) {
	go func() {
		g := goid()
		mu.Lock()
		t.gid = g
		byGid[g] = t
		mu.Unlock()
		<-t.wake
		defer func() {
			mu.Lock()
			t.st = stDone
			delete(byGid, g)
			mu.Unlock()
			kickNB()
		}()
		fn()
	}()
}

// StartPending starts goroutines that package init() functions asked for (inside the bubble).
func StartPending() {
	mu.Lock()
	p := pending
	pending = nil
	mu.Unlock()
	for _, t := range p {
		Go(t.name, t.fn)
	}
}

// Park makes the calling task runnable and waits for the baton. It is the universal yield point.
func Park(site string) {
	if !on.Load() {
		return
	}
	t := current()
	mu.Lock()
	// Fast path: with no pre-emption configured and the choice vector used up, the decision at this yield
	// point is always "the baton holder keeps running" (choice 0). It is taken - and counted and hashed -
	// right here, without the round trip through the decision loop. The schedule is identical.
	if cfg.PreemptPermille == 0 && choicePos >= len(cfg.Choices) && t == cur && t.st == stRunning &&
		(!delaysOn() || !siteSelectedLocked(site)) && len(stallRules) == 0 &&
		(cfg.MaxDecisions == 0 || seq.Load() < cfg.MaxDecisions) {
		t.site = site
		n := seq.Add(1)
		choicePos++
		var b [24]byte
		putU64(b[0:], n)
		putU64(b[8:], fpID(t))
		putU64(b[16:], strHash(site))
		fp.Write(b[:])
		if traceOn {
			recentLog = append(recentLog, fmt.Sprintf("%d t%d %s @%s (fast)", n, t.id, t.name, site))
		}
		mu.Unlock()
		return
	}
	t.st = stRunnable
	t.site = site
	if delaysOn() && siteSelectedLocked(site) {
		t.delayed = seq.Load() + uint64(cfg.DelayLen)
		stats["site_delays"]++
	}
	mu.Unlock()
	kickNB()
	<-t.wake
}

var siteSel = map[string]bool{}

func delaysOn() bool { return cfg.DelayPermille > 0 || len(cfg.DelaySites) > 0 }

func siteSelectedLocked(site string) bool {
	v, ok := siteSel[site]
	if !ok {
		v = cfg.DelayPermille > 0 && mix(strHash(site), cfg.Seed)%1000 < uint64(cfg.DelayPermille)
		for _, sub := range cfg.DelaySites {
			if sub != "" && strings.Contains(site, sub) {
				v = true
			}
		}
		siteSel[site] = v
		if v {
			stats["delay_sites"]++
		}
	}
	return v
}

// callerSite names the repo code location that called a sync primitive (skip frames above the caller).
func callerSite(skip int) string {
	pc, _, _, ok := runtime.Caller(skip + 1)
	if !ok {
		return "?"
	}
	siteMu.Lock()
	s, hit := siteCache[pc]
	siteMu.Unlock()
	if hit {
		return s
	}
	f := runtime.FuncForPC(pc)
	file, line := f.FileLine(pc)
	if i := strings.Index(file, "/pkg/"); i >= 0 {
		file = file[i+1:]
	}
	s = fmt.Sprintf("%s:%d", file, line)
	siteMu.Lock()
	siteCache[pc] = s
	siteMu.Unlock()
	return s
}

var (
	siteMu    sync.Mutex
	siteCache = map[uintptr]string{}
)

// Yield is Park under another name (before an operation rather than after a wake-up).
func Yield(site string) { Park(site) }

// Sleep is the rewritten time.Sleep: the task blocks on the (fake) clock, then re-enters the scheduler.
func Sleep(d time.Duration) {
	if !on.Load() {
		time.Sleep(d)
		return
	}
	current() // make sure the goroutine is known
	time.Sleep(d)
	Park("sleep-wake")
}

// Stall holds back, for d of simulated time, every task whose name starts with namePrefix: those alive now
// and those created during the window (a "slow node" fault for a class of goroutines).
func Stall(namePrefix string, d time.Duration) int {
	mu.Lock()
	defer mu.Unlock()
	n := 0
	until := time.Now().Add(d)
	stallRules = append(stallRules, stallRule{namePrefix, until})
	for _, t := range tasks {
		if t.st != stDone && strings.HasPrefix(t.name, namePrefix) {
			n++
		}
	}
	stats["stalls"]++
	return n
}

type stallRule struct {
	prefix string
	until  time.Time
}

var stallRules []stallRule

// stalledUntilLocked returns the end of the stall that applies to t at instant now (zero if none).
func stalledUntilLocked(t *Task, now time.Time) time.Time {
	var end time.Time
	for _, r := range stallRules {
		if now.Before(r.until) && strings.HasPrefix(t.name, r.prefix) && r.until.After(end) {
			end = r.until
		}
	}
	return end
}

// SetOpBudget arms the hang detector: if the simulated clock passes now+d before ClearOpBudget the
// decision loop reports a hang of the system under test.
func SetOpBudget(d time.Duration) {
	mu.Lock()
	opStart = time.Now()
	opBudget = d
	mu.Unlock()
}

func ClearOpBudget() {
	mu.Lock()
	opBudget = 0
	mu.Unlock()
}

// Run executes main as the first task under the decision loop and returns when main returns.
// With the scheduler off it simply calls main.
func Run(main func()) {
	started.Store(true)
	if !on.Load() {
		StartPending()
		main()
		return
	}
	mu.Lock()
	mt := newTaskLocked("main")
	mu.Unlock()
	launch(mt, func() {
		StartPending()
		main()
		mu.Lock()
		mainDone = true
		mu.Unlock()
	})
	wakeTimer := make(chan struct{}, 1)
	for {
		synctest.Wait()
		mu.Lock()
		if mainDone {
			mu.Unlock()
			return
		}
		now := time.Now()
		var runnable []*Task
		var nextStallEnd time.Time
		for _, t := range tasks {
			if t.st == stRunning {
				t.st = stBlockedExt
			}
			if t.st == stRunnable {
				if end := stalledUntilLocked(t, now); !end.IsZero() {
					if nextStallEnd.IsZero() || end.Before(nextStallEnd) {
						nextStallEnd = end
					}
					stats["stalled_decisions"]++
					continue
				}
				runnable = append(runnable, t)
			}
		}
		if delaysOn() && len(runnable) > 0 {
			cur := seq.Load()
			var free []*Task
			for _, t := range runnable {
				if t.delayed <= cur {
					free = append(free, t)
				}
			}
			if len(free) > 0 {
				runnable = free
			} else {
				// everything runnable is held back: release the one whose delay ends first
				best := runnable[0]
				for _, t := range runnable {
					if t.delayed < best.delayed {
						best = t
					}
				}
				best.delayed = 0
				runnable = []*Task{best}
			}
		}
		if opBudget > 0 && now.Sub(opStart) > opBudget {
			dump := dumpLocked()
			mu.Unlock()
			if OnHang != nil {
				OnHang(dump)
			}
			fmt.Fprintf(os.Stderr, "SIM-HANG\n%s\n", dump)
			os.Exit(78)
		}
		if cfg.MaxDecisions > 0 && seq.Load() > cfg.MaxDecisions {
			dump := dumpLocked()
			mu.Unlock()
			if OnHang != nil {
				OnHang("decision budget exhausted\n" + dump)
			}
			fmt.Fprintf(os.Stderr, "SIM-HANG decision budget\n%s\n", dump)
			os.Exit(78)
		}
		if len(runnable) == 0 {
			mu.Unlock()
			if !nextStallEnd.IsZero() {
				// only stalled tasks are runnable: let the clock reach the end of the stall
				d := nextStallEnd.Sub(now)
				time.AfterFunc(d, func() {
					select {
					case wakeTimer <- struct{}{}:
					default:
					}
				})
				select {
				case <-kick:
				case <-wakeTimer:
				}
				continue
			}
			<-kick
			continue
		}
		// Goroutines of third-party pools (fasthttp workers) are adopted in an order the pool decides (it may
		// reuse a worker or start a new one): their position among the candidates must not depend on when they
		// were adopted, so they always come first.
		sort.SliceStable(runnable, func(i, j int) bool {
			return strings.HasPrefix(runnable[i].name, "adopted#") && !strings.HasPrefix(runnable[j].name, "adopted#")
		})
		t := pickLocked(runnable)
		if t != cur {
			switches++
		}
		cur = t
		t.st = stRunning
		n := seq.Add(1)
		var b [24]byte
		putU64(b[0:], n)
		putU64(b[8:], fpID(t))
		putU64(b[16:], strHash(t.site))
		fp.Write(b[:])
		if traceOn {
			recentLog = append(recentLog, fmt.Sprintf("%d t%d %s @%s", n, t.id, t.name, t.site))
		}
		mu.Unlock()
		t.wake <- struct{}{}
	}
}

var traceOn = os.Getenv("SIM_TRACE") != ""

// Trace returns the decision log (only kept when SIM_TRACE is set).
func Trace() []string {
	mu.Lock()
	defer mu.Unlock()
	return append([]string(nil), recentLog...)
}

func putU64(b []byte, v uint64) {
	for i := 0; i < 8; i++ {
		b[i] = byte(v >> (8 * i))
	}
}

func strHash(s string) uint64 {
	h := uint64(14695981039346656037)
	for i := 0; i < len(s); i++ {
		h ^= uint64(s[i])
		h *= 1099511628211
	}
	return h
}

// pickLocked applies the choice encoding: 0 = keep the current task if runnable, else the lowest id;
// v>0 = the v-th (1-based, modulo) runnable task other than the current one.
func pickLocked(runnable []*Task) *Task {
	v := 0
	if choicePos < len(cfg.Choices) {
		v = cfg.Choices[choicePos]
	} else if cfg.PreemptPermille > 0 && len(runnable) > 1 {
		if rng.IntN(1000) < cfg.PreemptPermille {
			v = 1 + rng.IntN(len(runnable))
		}
	}
	choicePos++
	var curRunnable bool
	for _, t := range runnable {
		if t == cur {
			curRunnable = true
		}
	}
	if v == 0 {
		if curRunnable {
			return cur
		}
		return runnable[0]
	}
	others := runnable
	if curRunnable && len(runnable) > 1 {
		others = make([]*Task, 0, len(runnable)-1)
		for _, t := range runnable {
			if t != cur {
				others = append(others, t)
			}
		}
	}
	return others[(v-1)%len(others)]
}

func dumpLocked() string {
	var sb strings.Builder
	for _, t := range tasks {
		if t.st == stDone {
			continue
		}
		fmt.Fprintf(&sb, "task %d %q state=%s site=%s", t.id, t.name, t.st, t.site)
		if t.waitOn != nil {
			fmt.Fprintf(&sb, " waits-on=%s", describe(t.waitOn))
		}
		sb.WriteByte('\n')
	}
	return sb.String()
}

// Dump lists the live tasks with their states (deadlock / hang / leak reports).
func Dump() string {
	mu.Lock()
	defer mu.Unlock()
	return dumpLocked()
}

// LiveTasks returns name -> count of tasks that are not done (goroutine-leak oracle).
func LiveTasks() map[string]int {
	mu.Lock()
	defer mu.Unlock()
	out := map[string]int{}
	for _, t := range tasks {
		if t.st != stDone {
			out[t.name]++
		}
	}
	return out
}

var procsKnob atomic.Int64

// Procs is the rewritten runtime.GOMAXPROCS(0): the plan's knob, or the real value when unset.
func Procs() int {
	if v := procsKnob.Load(); v > 0 {
		return int(v)
	}
	// no knob (or package initialisation, before the plan is read): a constant, never the real GOMAXPROCS of
	// the child process, so that an execution does not depend on how many threads the simulator was given
	return 2
}

// ---- deterministic map iteration -------------------------------------------------------------

var mapSeed atomic.Uint64

// Keys returns the keys of m in a deterministic order: canonical order by kind, then (when a map seed is
// set) re-ordered by a keyed hash, so that the order replays exactly but varies across seeds.
func Keys[K comparable, V any](m map[K]V) []K {
	keys := make([]K, 0, len(m))
	for k := range m {
		keys = append(keys, k)
	}
	if len(keys) < 2 {
		return keys
	}
	sortKeys(keys)
	if s := mapSeed.Load(); s != 0 {
		type hk struct {
			h uint64
			i int
		}
		hs := make([]hk, len(keys))
		for i := range keys {
			hs[i] = hk{mix(uint64(i)+1, s), i}
		}
		sort.Slice(hs, func(a, b int) bool { return hs[a].h < hs[b].h })
		out := make([]K, len(keys))
		for i, x := range hs {
			out[i] = keys[x.i]
		}
		return out
	}
	return keys
}

func mix(x, s uint64) uint64 {
	x ^= s
	x *= 0xbf58476d1ce4e5b9
	x ^= x >> 31
	x *= 0x94d049bb133111eb
	x ^= x >> 29
	return x
}

func sortKeys[K comparable](keys []K) {
	switch ks := any(keys).(type) {
	case []string:
		sort.Strings(ks)
	case []int:
		sort.Ints(ks)
	case []int64:
		sort.Slice(ks, func(i, j int) bool { return ks[i] < ks[j] })
	case []uint64:
		sort.Slice(ks, func(i, j int) bool { return ks[i] < ks[j] })
	case []uint32:
		sort.Slice(ks, func(i, j int) bool { return ks[i] < ks[j] })
	case []uint16:
		sort.Slice(ks, func(i, j int) bool { return ks[i] < ks[j] })
	case []uint8:
		sort.Slice(ks, func(i, j int) bool { return ks[i] < ks[j] })
	case []int32:
		sort.Slice(ks, func(i, j int) bool { return ks[i] < ks[j] })
	case []float64:
		sort.Float64s(ks)
	default:
		sort.Slice(keys, func(i, j int) bool { return keyLess(any(keys[i]), any(keys[j])) })
	}
}

func describe(v interface{}) string {
	switch x := v.(type) {
	case *Mutex:
		return fmt.Sprintf("Mutex(%p owner=%s)", x, ownerName(x.owner))
	case *RWMutex:
		return fmt.Sprintf("RWMutex(%p writer=%s readers=%d)", x, ownerName(x.writer), x.readers)
	case *WaitGroup:
		return fmt.Sprintf("WaitGroup(%p n=%d)", x, x.n)
	default:
		return fmt.Sprintf("%T", v)
	}
}

func ownerName(t *Task) string {
	if t == nil {
		return "-"
	}
	return fmt.Sprintf("t%d:%s", t.id, t.name)
}

// ---- re-initialisation of package-level objects that own channels/timers (rewriter rule R7) ------

var reinits []func()

// RegisterReinit is called from generated init() functions of rewritten repo packages.
func RegisterReinit(f func()) { reinits = append(reinits, f) }

// RunReinits re-evaluates, inside the bubble, the initialisers registered by RegisterReinit.
func RunReinits() {
	for _, f := range reinits {
		f()
	}
}

// fpID: the identity hashed into the fingerprint. Goroutines of third-party pools (fasthttp workers) are adopted
// when they first enter repo code; which pool goroutine serves a connection is the pool's business and varies
// between executions without any effect on the node, so they all hash as one identity.
func fpID(t *Task) uint64 {
	if strings.HasPrefix(t.name, "adopted#") {
		return 1 << 40
	}
	return t.fid
}
