// Package simfs is the simulated disk seam. The build-time rewriter substitutes it for every file-system
// call of package os made by /repo (and *os.File by *simfs.File). It is a thin layer over a real scratch
// directory: every call is  yield point -> path police -> fault decision -> real operation -> bookkeeping.
//
// Mutating calls are numbered 1..M per incarnation; the plan can make call k the last one of the process
// (crash), fail it, make it short, or fill the disk from k on. Nothing here draws randomness.
package simfs

import (
	"errors"
	"fmt"
	"io"
	"io/fs"
	"os"
	"path/filepath"
	"strings"
	"sync"
	"syscall"
	"time"

	"simlens/simrt"
)

type Fault struct {
	Kind string // crash_after | crash_torn | fail | short | full_after | read_eio
	At   int
	N    int
	Err  string
	Path string
}

type OpRec struct {
	N    int    `json:"n"`
	Op   string `json:"op"`
	Path string `json:"path"`
	Len  int    `json:"len,omitempty"`
}

type Escape struct {
	Op    string `json:"op"`
	Path  string `json:"path"`
	Abs   string `json:"abs"`
	Stack string `json:"stack,omitempty"`
}

var (
	mu        sync.Mutex
	active    bool
	roots     []string // absolute, cleaned, with trailing separator
	cwd       string
	faults    []Fault
	nMut      int // mutating calls completed or attempted so far
	nRead     int
	full      bool
	trace     []OpRec
	traceOn   bool
	fired     = map[string]int{}
	escapes   []Escape
	police    bool
	OnCrash   func(k int) // called right before _exit(77)
	freeBytes uint64 = 1 << 40
	totalBytes uint64 = 1 << 41
	freeInodes uint64 = 1 << 30
	totalInodes uint64 = 1 << 31
	perPathCount = map[string]int{}
	last      OpRec
)

// LastOp is the most recent mutating call (reported with a crash).
func LastOp() OpRec {
	mu.Lock()
	defer mu.Unlock()
	return last
}

// Init activates the seam. allowed are the directory roots the node may touch.
func Init(allowed []string, fs []Fault, keepTrace bool, pathPolice bool) {
	mu.Lock()
	defer mu.Unlock()
	cwd, _ = os.Getwd()
	roots = nil
	for _, r := range allowed {
		a, _ := filepath.Abs(r)
		roots = append(roots, filepath.Clean(a)+string(filepath.Separator))
	}
	faults = fs
	traceOn = keepTrace
	police = pathPolice
	active = true
}

func SetCapacity(free, total, ifree, itotal uint64) {
	mu.Lock()
	freeBytes, totalBytes, freeInodes, totalInodes = free, total, ifree, itotal
	mu.Unlock()
}

func MutOps() int {
	mu.Lock()
	defer mu.Unlock()
	return nMut
}

func Trace() []OpRec {
	mu.Lock()
	defer mu.Unlock()
	return append([]OpRec(nil), trace...)
}

func Fired() map[string]int {
	mu.Lock()
	defer mu.Unlock()
	out := map[string]int{}
	for k, v := range fired {
		out[k] = v
	}
	return out
}

func Escapes() []Escape {
	mu.Lock()
	defer mu.Unlock()
	return append([]Escape(nil), escapes...)
}

func rel(p string) string {
	a, err := filepath.Abs(p)
	if err != nil {
		return p
	}
	if r, err := filepath.Rel(cwd, a); err == nil && !strings.HasPrefix(r, "..") {
		return r
	}
	return a
}

var errEscape = &fs.PathError{Op: "simfs", Path: "", Err: syscall.EACCES}

// check polices a path. It returns an error when the operation must not be executed.
func check(op, p string) error {
	if !active || !police {
		return nil
	}
	a, err := filepath.Abs(p)
	if err != nil {
		return nil
	}
	a = filepath.Clean(a)
	as := a + string(filepath.Separator)
	for _, r := range roots {
		if strings.HasPrefix(as, r) {
			return nil
		}
	}
	mu.Lock()
	if len(escapes) < 64 {
		escapes = append(escapes, Escape{Op: op, Path: p, Abs: a, Stack: shortStack()})
	}
	mu.Unlock()
	return &fs.PathError{Op: op, Path: p, Err: syscall.EACCES}
}

func shortStack() string {
	var pcs [24]uintptr
	return callers(pcs[:])
}

// mutate accounts one mutating call and decides its fate. It returns (err, shortN, crashAfter, torn):
// err != nil: do not perform the call, return err. shortN >= 0: perform only the first shortN bytes.
func mutate(op, p string, length int) (err error, shortN int, crashAfter bool, torn bool) {
	shortN = -1
	if !active {
		return
	}
	simrt.Yield("fs:" + op)
	mu.Lock()
	defer mu.Unlock()
	nMut++
	k := nMut
	last = OpRec{N: k, Op: op, Path: rel(p), Len: length}
	if traceOn {
		trace = append(trace, last)
	}
	allocating := op == "write" || op == "writeat" || op == "create" || op == "mkdir" || op == "writefile" || op == "createtemp"
	if full && allocating {
		fired["full_after"]++
		return &fs.PathError{Op: op, Path: p, Err: syscall.ENOSPC}, -1, false, false
	}
	for _, f := range faults {
		at := k
		if f.Path != "" {
			if !strings.Contains(p, f.Path) {
				continue
			}
			perPathCount[f.Kind+"|"+f.Path+"|"+fmt.Sprint(f.At)]++
			at = perPathCount[f.Kind+"|"+f.Path+"|"+fmt.Sprint(f.At)]
		}
		if f.At != at {
			continue
		}
		switch f.Kind {
		case "crash_after":
			fired["crash_after"]++
			crashAfter = true
		case "crash_torn":
			if length > 0 {
				fired["crash_torn"]++
				n := f.N
				if n >= length {
					n = length - 1
				}
				if n < 0 {
					n = 0
				}
				shortN = n
				torn = true
			} else {
				// not a data write: degrade to crash before the call takes effect
				fired["crash_before"]++
				torn = true
				shortN = 0
			}
		case "fail":
			fired["fail:"+f.Err]++
			return &fs.PathError{Op: op, Path: p, Err: errno(f.Err)}, -1, false, false
		case "short":
			if length > 0 {
				fired["short"]++
				n := f.N
				if n >= length {
					n = length - 1
				}
				if n < 0 {
					n = 0
				}
				shortN = n
			}
		case "full_after":
			fired["full_armed"]++
			full = true
		}
	}
	return
}

func errno(s string) error {
	switch s {
	case "ENOSPC":
		return syscall.ENOSPC
	case "EMFILE":
		return syscall.EMFILE
	case "EACCES":
		return syscall.EACCES
	default:
		return syscall.EIO
	}
}

func crash() {
	mu.Lock()
	k := nMut
	cb := OnCrash
	mu.Unlock()
	if cb != nil {
		cb(k)
	}
	os.Exit(77)
}

func readFault(op, p string) error {
	if !active {
		return nil
	}
	mu.Lock()
	defer mu.Unlock()
	nRead++
	for _, f := range faults {
		if f.Kind != "read_eio" {
			continue
		}
		if f.Path != "" {
			if strings.Contains(p, f.Path) && (f.At == 0) {
				fired["read_eio"]++
				return &fs.PathError{Op: op, Path: p, Err: syscall.EIO}
			}
			continue
		}
		if f.At == nRead {
			fired["read_eio"]++
			return &fs.PathError{Op: op, Path: p, Err: syscall.EIO}
		}
	}
	return nil
}

func stamp(p string) {
	if !active {
		return
	}
	now := time.Now()
	_ = os.Chtimes(p, now, now)
}

// ---- File -------------------------------------------------------------------------------------

type File struct {
	*os.File
	path    string
	written bool
}

func wrap(f *os.File, p string) *File {
	if f == nil {
		return nil
	}
	return &File{File: f, path: p}
}

func OpenFile(name string, flag int, perm os.FileMode) (*File, error) {
	if err := check("open", name); err != nil {
		return nil, err
	}
	mutating := flag&(os.O_CREATE|os.O_TRUNC) != 0
	if mutating {
		// creating or truncating changes the durable state: it is a crash point
		op := "create"
		if flag&os.O_TRUNC != 0 {
			op = "trunc-open"
		}
		if flag&os.O_TRUNC == 0 {
			if _, err := os.Lstat(name); err == nil {
				mutating = false // plain open of an existing file
			}
		}
		if mutating {
			err, _, crashAfter, torn := mutate(op, name, 0)
			if err != nil {
				return nil, err
			}
			if torn {
				crash()
			}
			f, e := os.OpenFile(name, flag, perm)
			if crashAfter {
				crash()
			}
			if e == nil {
				// created or truncated: the file's times are simulated times from its first instant (a file created
				// and left empty used to keep the real wall-clock mtime, decades after every simulated one)
				stamp(name)
			}
			return wrap(f, name), e
		}
	}
	if flag&(os.O_WRONLY|os.O_RDWR) == 0 {
		if err := readFault("open", name); err != nil {
			return nil, err
		}
	}
	f, e := os.OpenFile(name, flag, perm)
	return wrap(f, name), e
}

func Open(name string) (*File, error) { return OpenFile(name, os.O_RDONLY, 0) }

func Create(name string) (*File, error) {
	return OpenFile(name, os.O_RDWR|os.O_CREATE|os.O_TRUNC, 0666)
}

func CreateTemp(dir, pattern string) (*File, error) {
	d := dir
	if d == "" {
		d = os.TempDir()
	}
	if err := check("createtemp", filepath.Join(d, pattern)); err != nil {
		return nil, err
	}
	err, _, crashAfter, torn := mutate("createtemp", filepath.Join(d, pattern), 0)
	if err != nil {
		return nil, err
	}
	if torn {
		crash()
	}
	f, e := os.CreateTemp(dir, pattern)
	if crashAfter {
		crash()
	}
	if e != nil {
		return nil, e
	}
	stamp(f.Name())
	return wrap(f, f.Name()), nil
}

func (f *File) doWrite(op string, b []byte, w func([]byte) (int, error)) (int, error) {
	err, shortN, crashAfter, torn := mutate(op, f.path, len(b))
	if err != nil {
		return 0, err
	}
	f.written = true
	if shortN >= 0 {
		n, _ := w(b[:shortN])
		if torn {
			crash()
		}
		return n, &fs.PathError{Op: op, Path: f.path, Err: syscall.ENOSPC}
	}
	n, e := w(b)
	if crashAfter {
		crash()
	}
	return n, e
}

func (f *File) Write(b []byte) (int, error) {
	return f.doWrite("write", b, f.File.Write)
}

func (f *File) WriteString(s string) (int, error) {
	return f.doWrite("write", []byte(s), f.File.Write)
}

func (f *File) WriteAt(b []byte, off int64) (int, error) {
	return f.doWrite("writeat", b, func(p []byte) (int, error) { return f.File.WriteAt(p, off) })
}

// ReadFrom routes io.Copy(f, r) through Write so that the bytes are accounted.
func (f *File) ReadFrom(r io.Reader) (int64, error) {
	buf := make([]byte, 32*1024)
	var total int64
	for {
		n, err := r.Read(buf)
		if n > 0 {
			w, werr := f.Write(buf[:n])
			total += int64(w)
			if werr != nil {
				return total, werr
			}
		}
		if err == io.EOF {
			return total, nil
		}
		if err != nil {
			return total, err
		}
	}
}

func (f *File) Truncate(size int64) error {
	err, _, crashAfter, torn := mutate("truncate", f.path, 0)
	if err != nil {
		return err
	}
	if torn {
		crash()
	}
	f.written = true
	e := f.File.Truncate(size)
	if crashAfter {
		crash()
	}
	return e
}

func (f *File) Sync() error {
	// Under the process-crash model fsync does not change what survives; it is not a crash point, but
	// it can fail.
	return f.File.Sync()
}

func (f *File) Read(b []byte) (int, error) {
	if err := readFault("read", f.path); err != nil {
		return 0, err
	}
	return f.File.Read(b)
}

func (f *File) ReadAt(b []byte, off int64) (int, error) {
	if err := readFault("readat", f.path); err != nil {
		return 0, err
	}
	return f.File.ReadAt(b, off)
}

func (f *File) Close() error {
	e := f.File.Close()
	if f.written && e == nil {
		stamp(f.path)
	}
	return e
}

// ---- package-level functions -------------------------------------------------------------------

func simple(op, p string, do func() error) error {
	if err := check(op, p); err != nil {
		return err
	}
	err, _, crashAfter, torn := mutate(op, p, 0)
	if err != nil {
		return err
	}
	if torn {
		crash()
	}
	e := do()
	if crashAfter {
		crash()
	}
	return e
}

func ReadFile(name string) ([]byte, error) {
	if err := check("readfile", name); err != nil {
		return nil, err
	}
	if err := readFault("readfile", name); err != nil {
		return nil, err
	}
	return os.ReadFile(name)
}

func WriteFile(name string, data []byte, perm os.FileMode) error {
	if err := check("writefile", name); err != nil {
		return err
	}
	// os.WriteFile = open(O_TRUNC|O_CREATE) + write + close: two crash points
	f, err := OpenFile(name, os.O_WRONLY|os.O_CREATE|os.O_TRUNC, perm)
	if err != nil {
		return err
	}
	_, err = f.Write(data)
	if err1 := f.Close(); err1 != nil && err == nil {
		err = err1
	}
	return err
}

func Rename(oldpath, newpath string) error {
	if err := check("rename", oldpath); err != nil {
		return err
	}
	if err := check("rename", newpath); err != nil {
		return err
	}
	return simple("rename", newpath, func() error {
		e := os.Rename(oldpath, newpath)
		if e == nil {
			stamp(newpath)
		}
		return e
	})
}

func Remove(name string) error {
	return simple("remove", name, func() error { return os.Remove(name) })
}

// RemoveAll is one crash point per directory entry would be the finest model; the real call is not atomic
// either. It is modelled as: crash before, or crash after the whole removal, plus (crash_torn) a partial
// removal that deletes only the first N entries found by a sorted walk.
func RemoveAll(path string) error {
	if err := check("removeall", path); err != nil {
		return err
	}
	if _, e := os.Lstat(path); e != nil {
		return os.RemoveAll(path)
	}
	err, shortN, crashAfter, torn := mutate("removeall", path, countEntries(path))
	if err != nil {
		return err
	}
	if torn {
		removeFirst(path, shortN)
		crash()
	}
	_ = shortN
	e := os.RemoveAll(path)
	if crashAfter {
		crash()
	}
	return e
}

func countEntries(p string) int {
	n := 0
	_ = filepath.WalkDir(p, func(_ string, d fs.DirEntry, err error) error {
		if err == nil && !d.IsDir() {
			n++
		}
		return nil
	})
	return n
}

func removeFirst(p string, n int) {
	var files []string
	_ = filepath.WalkDir(p, func(q string, d fs.DirEntry, err error) error {
		if err == nil && !d.IsDir() {
			files = append(files, q)
		}
		return nil
	})
	for i := 0; i < n && i < len(files); i++ {
		_ = os.Remove(files[i])
	}
}

func Mkdir(name string, perm os.FileMode) error {
	return simple("mkdir", name, func() error { return os.Mkdir(name, perm) })
}

func MkdirAll(path string, perm os.FileMode) error {
	if err := check("mkdir", path); err != nil {
		return err
	}
	if fi, e := os.Stat(path); e == nil && fi.IsDir() {
		return nil // nothing changes: not a crash point
	}
	return simple("mkdir", path, func() error { return os.MkdirAll(path, perm) })
}

func Stat(name string) (os.FileInfo, error) {
	if err := check("stat", name); err != nil {
		return nil, err
	}
	return os.Stat(name)
}

func Lstat(name string) (os.FileInfo, error) {
	if err := check("lstat", name); err != nil {
		return nil, err
	}
	return os.Lstat(name)
}

func ReadDir(name string) ([]os.DirEntry, error) {
	if err := check("readdir", name); err != nil {
		return nil, err
	}
	return os.ReadDir(name)
}

func Truncate(name string, size int64) error {
	return simple("truncate", name, func() error { return os.Truncate(name, size) })
}

// Walk polices the root, then walks for real (read-only).
func Walk(root string, fn filepath.WalkFunc) error {
	if err := check("walk", root); err != nil {
		return err
	}
	return filepath.Walk(root, fn)
}

// Statfs answers from the plan's capacity knobs.
func Statfs(path string, st *syscall.Statfs_t) error {
	if !active {
		return syscall.Statfs(path, st)
	}
	if err := check("statfs", path); err != nil {
		return err
	}
	mu.Lock()
	defer mu.Unlock()
	*st = syscall.Statfs_t{}
	st.Bsize = 4096
	st.Blocks = totalBytes / 4096
	st.Bfree = freeBytes / 4096
	st.Bavail = freeBytes / 4096
	st.Files = totalInodes
	st.Ffree = freeInodes
	return nil
}

// Flock: a real flock held by a parked task would wedge the bubble, and within one process the tags-tree
// writer and reader are already serialised by the scheduler; the lock is modelled as always granted.
func Flock(fd int, how int) error { return nil }

var _ = errors.New
