package simfs

import (
	"fmt"
	"runtime"
	"strings"
)

func callers(pcs []uintptr) string {
	n := runtime.Callers(4, pcs)
	frames := runtime.CallersFrames(pcs[:n])
	var sb strings.Builder
	for {
		f, more := frames.Next()
		if strings.Contains(f.Function, "siglens") {
			fmt.Fprintf(&sb, "%s:%d;", f.Function, f.Line)
		}
		if !more {
			break
		}
	}
	return sb.String()
}
