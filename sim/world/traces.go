package world

import (
	"encoding/hex"
	"encoding/json"
	"fmt"
	"time"

	"simlens/plan"

	coltracepb "go.opentelemetry.io/proto/otlp/collector/trace/v1"
	commonpb "go.opentelemetry.io/proto/otlp/common/v1"
	resourcepb "go.opentelemetry.io/proto/otlp/resource/v1"
	tracepb "go.opentelemetry.io/proto/otlp/trace/v1"
	"google.golang.org/protobuf/proto"
)

func init() {
	extra["otlp_traces"] = otlpTracesOp
}

// SpanSpec is one span of an otlp_traces op (op.Body = JSON array). Times are relative to the simulated
// instant of the request: start = now + off_ms (usually negative), end = start + dur_us.
type SpanSpec struct {
	Trace  string `json:"t"`
	Span   string `json:"s"`
	Parent string `json:"p,omitempty"`
	Svc    string `json:"svc"`
	Name   string `json:"name"`
	Status int    `json:"st"` // 0 unset 1 ok 2 error
	OffMs  int64  `json:"off_ms"`
	DurUs  int64  `json:"dur_us"`
}

// otlp_traces: an OTLP/HTTP protobuf export request to the real ingest route; consecutive spans of the same
// service share a ResourceSpans group.
func otlpTracesOp(op *plan.Op) (interface{}, error) {
	var specs []SpanSpec
	if err := json.Unmarshal([]byte(op.Body), &specs); err != nil {
		return nil, fmt.Errorf("otlp_traces: %v", err)
	}
	now := time.Now()
	req := &coltracepb.ExportTraceServiceRequest{}
	var cur *tracepb.ResourceSpans
	curSvc := "\x00"
	for _, s := range specs {
		if s.Svc != curSvc {
			cur = &tracepb.ResourceSpans{Resource: &resourcepb.Resource{Attributes: []*commonpb.KeyValue{{Key: "service.name", Value: &commonpb.AnyValue{Value: &commonpb.AnyValue_StringValue{StringValue: s.Svc}}}}},
				ScopeSpans: []*tracepb.ScopeSpans{{}}}
			switch s.Svc {
			case "":
				// a resource that does not name its service (another attribute only)
				cur.Resource.Attributes = []*commonpb.KeyValue{{Key: "host.name", Value: &commonpb.AnyValue{Value: &commonpb.AnyValue_StringValue{StringValue: "h1"}}}}
			case "\x01":
				cur.Resource = nil
			}
			req.ResourceSpans = append(req.ResourceSpans, cur)
			curSvc = s.Svc
		}
		tid, _ := hex.DecodeString(s.Trace)
		sid, _ := hex.DecodeString(s.Span)
		pid, _ := hex.DecodeString(s.Parent)
		start := uint64(now.Add(time.Duration(s.OffMs) * time.Millisecond).UnixNano())
		sp := &tracepb.Span{TraceId: tid, SpanId: sid, ParentSpanId: pid, Name: s.Name, Kind: tracepb.Span_SPAN_KIND_SERVER,
			StartTimeUnixNano: start, EndTimeUnixNano: start + uint64(s.DurUs)*1000,
			Status:     &tracepb.Status{Code: tracepb.Status_StatusCode(s.Status)},
			Attributes: []*commonpb.KeyValue{{Key: "http.route", Value: &commonpb.AnyValue{Value: &commonpb.AnyValue_StringValue{StringValue: "/" + s.Name}}}}}
		cur.ScopeSpans[0].Spans = append(cur.ScopeSpans[0].Spans, sp)
	}
	b, err := proto.Marshal(req)
	if err != nil {
		return nil, err
	}
	r, err := HTTP("ingest", "POST", "/otlp/v1/traces", map[string]string{"Content-Type": "application/x-protobuf"}, b)
	if err != nil {
		return nil, err
	}
	return map[string]interface{}{"status": r.Status, "now_ns": now.UnixNano(), "spans": len(specs)}, nil
}
