package world

import (
	"fmt"

	"simlens/plan"
)

func init() {
	extra["alert_update"] = alertUpdate
}

// alert_update: the alert called op.Name is updated through the HTTP API with the definition in Args (the same
// keys as alert_create); the handler stores it, writes a "config modified" history row and re-registers the
// alert's job.
func alertUpdate(op *plan.Op) (interface{}, error) {
	all, _, err := httpJSON("query", "GET", "/api/allalerts", nil)
	if err != nil {
		return nil, err
	}
	var found map[string]interface{}
	if l, ok := all["alerts"].([]interface{}); ok {
		for _, a := range l {
			if am, ok := a.(map[string]interface{}); ok && am["alert_name"] == op.Name {
				found = am
			}
		}
	}
	if found == nil {
		return nil, fmt.Errorf("alert %s not listed", op.Name)
	}
	num := func(k string, def float64) float64 {
		if v, ok := op.Args[k].(float64); ok {
			return v
		}
		return def
	}
	query, _ := op.Args["query"].(string)
	msg, _ := op.Args["message"].(string)
	interval := num("eval_interval", 1)
	body := map[string]interface{}{
		"alert_id": found["alert_id"], "alert_name": op.Name, "alert_type": 1, "contact_id": found["contact_id"], "contact_name": found["contact_name"],
		"queryParams": map[string]interface{}{"data_source": "Logs", "queryLanguage": "Splunk QL", "queryText": query,
			"startTime": fmt.Sprintf("now-%dm", int(interval)), "endTime": "now", "index": op.Index, "queryMode": "Builder"},
		"condition": num("condition", 0), "value": num("value", 0), "eval_for": num("eval_for", 1), "eval_interval": interval,
		"message": msg, "labels": []interface{}{},
	}
	resp, st, err := httpJSON("query", "POST", "/api/alerts/update", body)
	if err != nil || st != 200 {
		return nil, fmt.Errorf("update alert: status %d %v err %v", st, resp, err)
	}
	settleCron()
	return map[string]interface{}{"alert_id": found["alert_id"]}, nil
}
