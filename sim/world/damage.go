package world

import (
	"fmt"
	"os"

	"simlens/plan"
)

func init() {
	extra["damage_file"] = damageFileOp
}

// damage_file: alters one stored file while the node runs (bit rot under a live server, as opposed to damage
// found at start-up): Args{file (relative to the scratch directory), op: trunc|set|flip, at, val}. The write goes
// to the real file, past the disk seam: it is the medium that changes, not an operation of the node.
func damageFileOp(op *plan.Op) (interface{}, error) {
	file, _ := op.Args["file"].(string)
	kind, _ := op.Args["op"].(string)
	at := int64(0)
	if v, ok := op.Args["at"].(float64); ok {
		at = int64(v)
	}
	val := 0
	if v, ok := op.Args["val"].(float64); ok {
		val = int(v)
	}
	switch kind {
	case "trunc":
		return nil, os.Truncate(file, at)
	case "set", "flip":
		f, err := os.OpenFile(file, os.O_RDWR, 0)
		if err != nil {
			return nil, err
		}
		defer f.Close()
		var b [1]byte
		if _, err := f.ReadAt(b[:], at); err != nil {
			return nil, err
		}
		if kind == "flip" {
			b[0] ^= byte(val)
		} else {
			b[0] = byte(val)
		}
		_, err = f.WriteAt(b[:], at)
		return nil, err
	}
	return nil, fmt.Errorf("damage_file: unknown op %q", kind)
}
