package world

import (
	"simlens/plan"

	segmetadata "github.com/siglens/siglens/pkg/segment/metadata"
	"github.com/siglens/siglens/pkg/segment/writer"
)

// mem_pressure: a memory-pressure fault. The node's memory limiter (limit.rebalanceMemoryAllocation, every
// minute and whenever a search needs more memory than it holds) hands the open segments' micro-index metadata and
// the rotated segments' micro-indexes a byte budget computed from the machine's free memory; what it then calls
// are exactly these two production entry points. The simulator plays the machine: it chooses the budget
// (args.unrotated_permille / args.rotated_permille of what is held right now; absent = untouched).
func init() {
	extra["mem_pressure"] = func(op *plan.Op) (interface{}, error) {
		out := map[string]interface{}{}
		if v, ok := op.Args["unrotated_permille"].(float64); ok {
			have := writer.GetSizeOfUnrotatedMetadata()
			budget := uint64(float64(have) * v / 1000)
			left := writer.RebalanceUnrotatedMetadata(budget)
			out["unrotated_before"], out["unrotated_budget"], out["unrotated_after"] = have, budget, left
		}
		if v, ok := op.Args["rotated_bytes"].(float64); ok {
			segmetadata.RebalanceInMemoryCmi(uint64(v))
			out["rotated_budget"] = uint64(v)
		}
		return out, nil
	}
}
