// Package world is the small API the simulator uses to drive the real SigLens packages: boot, ingest,
// flush, rotate, advance the (fake) clock, query. Every function calls a real entry point of /repo.
package world

import (
	"sort"

	"bytes"
	"context"
	"encoding/json"
	"fmt"
	"github.com/siglens/siglens/pkg/segment/sortindex"
	htmltemplate "html/template"
	"io"
	"math"
	"os"
	"strings"
	texttemplate "text/template"
	"time"

	"simlens/plan"
	"simlens/simrt"

	"github.com/siglens/siglens/cmd/startup"
	"github.com/siglens/siglens/pkg/ast/pipesearch"
	"github.com/siglens/siglens/pkg/config"
	commonconfig "github.com/siglens/siglens/pkg/config/common"
	eswriter "github.com/siglens/siglens/pkg/es/writer"
	"github.com/siglens/siglens/pkg/hooks"
	rutils "github.com/siglens/siglens/pkg/readerUtils"
	"github.com/siglens/siglens/pkg/segment/memory/limit"
	"github.com/siglens/siglens/pkg/segment/query"
	"github.com/siglens/siglens/pkg/segment/writer"
	serverutils "github.com/siglens/siglens/pkg/server/utils"
	vtable "github.com/siglens/siglens/pkg/virtualtable"
	log "github.com/sirupsen/logrus"
)

const DataDir = "d/"

// Boot starts a node on ./d/ (relative to the process's working directory).
func Boot(mode string, k *plan.Knobs) error {
	installLogHook()
	if len(k.Orgs) > 0 {
		ids := append([]int64(nil), k.Orgs...)
		hooks.GlobalHooks.GetIdsConditionHook = func() (bool, []int64) { return true, ids }
	}
	if os.Getenv("SIM_LOG") != "" {
		f, err := os.OpenFile(os.Getenv("SIM_LOG"), os.O_CREATE|os.O_APPEND|os.O_WRONLY, 0o644)
		if err == nil {
			log.SetOutput(f)
		}
		if os.Getenv("SIM_LOG_LEVEL") == "debug" {
			log.SetLevel(log.DebugLevel)
		}
	} else {
		log.SetOutput(io.Discard)
	}
	// Production defaults: the YAML goes through the shipped ExtractConfigData, not the test config.
	var y strings.Builder
	fmt.Fprintf(&y, "dataPath: %q\n", DataDir)
	y.WriteString("ssInstanceName: simhost\ningestListenIP: sim\nqueryListenIP: sim\ningestPort: 8081\nqueryPort: 5122\n")
	y.WriteString("log:\n  logPrefix: \"logs/\"\nanalyticsEnabled: \"false\"\npprofEnabled: \"false\"\n")
	y.WriteString("minionSearch:\n  enabled: true\n  provider: sqlite\n")
	if k.IdleFlushSecs > 0 {
		fmt.Fprintf(&y, "idleWipFlushIntervalSecs: %d\n", k.IdleFlushSecs)
	}
	if k.MaxWaitSecs > 0 {
		fmt.Fprintf(&y, "maxWaitWipFlushIntervalSecs: %d\n", k.MaxWaitSecs)
	}
	if k.MaxSegFileSize > 0 {
		fmt.Fprintf(&y, "maxSegFileSize: %d\n", k.MaxSegFileSize)
	}
	if k.PQS != nil {
		fmt.Fprintf(&y, "pqsEnabled: \"%v\"\n", *k.PQS)
	}
	if k.Aggs != nil {
		fmt.Fprintf(&y, "agileAggsEnabled: \"%v\"\n", *k.Aggs)
	}
	if k.RetentionHours > 0 {
		fmt.Fprintf(&y, "retentionHours: %d\n", k.RetentionHours)
	}
	qt := 300
	if k.QueryTimeoutSec > 0 {
		qt = k.QueryTimeoutSec
	}
	fmt.Fprintf(&y, "queryTimeoutSecs: %d\n", qt)
	if k.LowMem || k.MemBytes > 0 {
		y.WriteString("memoryLimits:\n")
		if k.LowMem {
			y.WriteString("  lowMemoryMode: true\n")
		}
		if k.MemBytes > 0 {
			fmt.Fprintf(&y, "  maxMemoryAllowedToUseInBytes: %d\n", k.MemBytes)
		}
	}
	cfg, err := config.ExtractConfigData([]byte(y.String()))
	if err != nil {
		return fmt.Errorf("ExtractConfigData: %w", err)
	}
	config.SetConfig(cfg)
	if err := config.InitDerivedConfig("simnode"); err != nil {
		return err
	}
	if k.QueryTimeoutSec > 0 {
		// the run-time setter behind the query-timeout API (the YAML path clamps small values)
		config.SetQueryTimeoutSecs(k.QueryTimeoutSec)
	}
	if k.CardLimit > 0 {
		writer.SetCardinalityLimit(uint16(k.CardLimit))
	}
	applyMetricsKnobs(k)
	// sort-index columns per index: the setting behind POST /api/sort-columns (a file under the data directory),
	// applied before any data arrives so that every rotation builds the index
	if len(k.SortCols) > 0 {
		names := make([]string, 0, len(k.SortCols))
		for ix := range k.SortCols {
			names = append(names, ix)
		}
		sort.Strings(names)
		for _, ix := range names {
			if err := sortindex.SetSortColumns(ix, k.SortCols[ix]); err != nil {
				return fmt.Errorf("SetSortColumns(%s): %w", ix, err)
			}
		}
	}
	switch mode {
	case "full":
		hooks.GlobalHooks.ParseTemplatesHook = func(htmlTemplate *htmltemplate.Template, textTemplate *texttemplate.Template) {}
		if err := startup.StartSiglensServer(commonconfig.SingleNode, "simnode"); err != nil {
			return fmt.Errorf("StartSiglensServer: %w", err)
		}
	default:
		limit.InitMemoryLimiter()
		if err := vtable.InitVTable(serverutils.GetMyIds); err != nil {
			return fmt.Errorf("InitVTable: %w", err)
		}
		if err := query.InitQueryNode(serverutils.GetMyIds, serverutils.ExtractKibanaRequests); err != nil {
			return fmt.Errorf("InitQueryNode: %w", err)
		}
		writer.InitWriterNode()
		query.InitMaxRunningQueries()
		go query.PullQueriesToRun(context.Background())
	}
	if k.MaxRunning > 0 {
		query.MAX_RUNNING_QUERIES = uint64(k.MaxRunning)
	}
	return nil
}

// BulkBody builds an ES bulk body for events of one index.
func BulkBody(index string, events []json.RawMessage) []byte {
	var b bytes.Buffer
	for _, e := range events {
		fmt.Fprintf(&b, "{\"index\":{\"_index\":%q}}\n", index)
		var cb bytes.Buffer
		if err := json.Compact(&cb, e); err == nil {
			b.Write(cb.Bytes())
		} else {
			b.Write(bytes.ReplaceAll(bytes.TrimSpace(e), []byte("\n"), []byte(" ")))
		}
		b.WriteByte('\n')
	}
	return b.Bytes()
}

// IngestBulk posts a raw ES bulk body through the real bulk processing function.
func IngestBulk(org int64, body []byte) (int, map[string]interface{}, error) {
	return eswriter.HandleBulkBody(body, nil, 0, org, false)
}

// Flush forces every open WIP buffer to its segment file: the function both flush timers call, with a
// negative idle duration so that every non-empty buffer qualifies whatever its last update time.
func Flush() {
	d := -time.Hour
	writer.FlushWipBufferToFile(&d, nil)
}

// Rotate rotates every open segment.
func Rotate() {
	writer.ForceRotateSegmentsForTest()
}

// Advance lets simulated time pass; every background loop due in the window runs.
func Advance(d time.Duration) { simrt.Sleep(d) }

// QueryResult is what the journal records for a log query.
type QueryResult struct {
	Records      []map[string]interface{} `json:"records,omitempty"`
	TotalMatched interface{}              `json:"total_matched,omitempty"`
	Measure      []Bucket                 `json:"measure,omitempty"`
	MeasureFuncs []string                 `json:"measure_funcs,omitempty"`
	GroupByCols  []string                 `json:"group_by_cols,omitempty"`
	AllColumns   []string                 `json:"all_columns,omitempty"`
	ColumnsOrder []string                 `json:"columns_order,omitempty"`
	Errors       []string                 `json:"errors,omitempty"`
	Qtype        string                   `json:"qtype,omitempty"`
	BucketCount  int                      `json:"bucket_count,omitempty"`
	Nil          bool                     `json:"nil,omitempty"`
}

type Bucket struct {
	GroupBy []string               `json:"g"`
	Vals    map[string]interface{} `json:"m"`
}

// Query runs one log query synchronously through the real parse+execute path.
func Query(op *plan.Op) (*QueryResult, error) {
	lang := op.Lang
	if lang == "" {
		lang = "Splunk QL"
	}
	req := map[string]interface{}{
		"searchText":    op.Text,
		"indexName":     op.Index,
		"startEpoch":    json.Number(fmt.Sprint(op.Start)),
		"endEpoch":      json.Number(fmt.Sprint(op.End)),
		"queryLanguage": lang,
		"state":         "query",
	}
	if op.Size > 0 {
		req["size"] = json.Number(fmt.Sprint(op.Size))
	}
	if op.From > 0 {
		req["from"] = json.Number(fmt.Sprint(op.From))
	}
	if v, ok := op.Args["includeNulls"]; ok {
		req["includeNulls"] = v
	}
	qid := rutils.GetNextQid()
	if v, ok := op.Args["qid"].(float64); ok && v > 0 {
		qid = uint64(v) // plan-chosen id so that a canceller client can name the query
	}
	resp, _, _, err := pipesearch.ParseAndExecutePipeRequest(req, qid, op.Org, time.Now(), "-1", nil)
	if err != nil {
		return nil, err
	}
	if resp == nil {
		return &QueryResult{Nil: true}, nil
	}
	r := &QueryResult{
		TotalMatched: resp.Hits.TotalMatched,
		MeasureFuncs: resp.MeasureFunctions,
		GroupByCols:  resp.GroupByCols,
		AllColumns:   resp.AllPossibleColumns,
		ColumnsOrder: resp.ColumnsOrder,
		Errors:       resp.Errors,
		Qtype:        resp.Qtype,
		BucketCount:  resp.BucketCount,
	}
	for _, h := range resp.Hits.Hits {
		r.Records = append(r.Records, sanitizeMap(h))
	}
	for _, b := range resp.MeasureResults {
		if b == nil {
			continue
		}
		r.Measure = append(r.Measure, Bucket{GroupBy: b.GroupByValues, Vals: sanitizeMap(b.MeasureVal)})
	}
	return r, nil
}

// sanitize makes values JSON-encodable without losing what the oracle needs: non-finite floats become
// tagged strings, integers keep full precision (json.Marshal of int64/uint64 is exact).
func sanitize(v interface{}) interface{} {
	switch x := v.(type) {
	case float64:
		if math.IsNaN(x) || math.IsInf(x, 0) {
			return fmt.Sprintf("!float:%v", x)
		}
		return x
	case float32:
		return sanitize(float64(x))
	case map[string]interface{}:
		return sanitizeMap(x)
	case []interface{}:
		out := make([]interface{}, len(x))
		for i := range x {
			out[i] = sanitize(x[i])
		}
		return out
	case []string, string, bool, nil, int, int8, int16, int32, int64, uint, uint8, uint16, uint32, uint64, json.Number:
		return x
	case fmt.Stringer:
		return x.String()
	default:
		b, err := json.Marshal(x)
		if err != nil {
			return fmt.Sprintf("!unencodable:%T:%v", x, x)
		}
		return json.RawMessage(b)
	}
}

func sanitizeMap(m map[string]interface{}) map[string]interface{} {
	out := make(map[string]interface{}, len(m))
	for k, v := range m {
		out[k] = sanitize(v)
	}
	return out
}
