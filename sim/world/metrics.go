package world

import (
	"fmt"
	"math"
	"sort"

	"simlens/plan"

	dtu "github.com/siglens/siglens/pkg/common/dtypeutils"
	"github.com/siglens/siglens/pkg/integrations/prometheus/promql"
	rutils "github.com/siglens/siglens/pkg/readerUtils"
	"github.com/siglens/siglens/pkg/segment"
	"github.com/siglens/siglens/pkg/segment/query"
	"github.com/siglens/siglens/pkg/segment/structs"
	sutils "github.com/siglens/siglens/pkg/segment/utils"
	"github.com/siglens/siglens/pkg/segment/writer"
	"github.com/siglens/siglens/pkg/segment/writer/metrics"
	"github.com/siglens/siglens/pkg/segment/writer/metrics/wal"
)

func init() {
	extra["mput"] = mput
	extra["mquery"] = mquery
}

// applyMetricsKnobs: thresholds that are package variables of the repo (block / segment / WAL sizes).
func applyMetricsKnobs(k *plan.Knobs) {
	for name, v := range k.MetricsKnobs {
		switch name {
		case "max_block_bytes":
			sutils.MAX_BYTES_METRICS_BLOCK = uint64(v)
		case "max_segment_bytes":
			sutils.MAX_BYTES_METRICS_SEGMENT = uint64(v)
		case "wal_block_flush":
			sutils.WAL_BLOCK_FLUSH_SIZE = v
		case "max_wal_file_bytes":
			sutils.MAX_WAL_FILE_SIZE_BYTES = uint64(v)
		}
	}
}

// mput ingests OpenTSDB-format datapoints (op.Events) through the real time-series entry point.
func mput(op *plan.Op) (interface{}, error) {
	errs := make([]string, len(op.Events))
	nerr := 0
	for i, raw := range op.Events {
		if err := writer.AddTimeSeriesEntryToInMemBuf(raw, sutils.SIGNAL_METRICS_OTSDB, op.Org); err != nil {
			errs[i] = err.Error()
			nerr++
		}
	}
	if nerr == 0 {
		errs = nil
	}
	return map[string]interface{}{"n": len(op.Events), "errors": errs}, nil
}

type MPoint struct {
	T    uint32 `json:"t"`
	Bits string `json:"b"` // float64 bits, hex (bit-exact through JSON)
	V    string `json:"v"` // readable
}

type MQueryResult struct {
	Series map[string][]MPoint `json:"series"`
	Errors []string            `json:"errors,omitempty"`
	Scalar bool                `json:"scalar,omitempty"`
}

// mquery mirrors ProcessPromqlMetricsRangeSearchRequest: parse, set the step, execute.
func mquery(op *plan.Op) (interface{}, error) {
	qid := rutils.GetNextQid()
	reqs, _, arith, err := promql.ConvertPromQLToMetricsQuery(op.Text, uint32(op.Start), uint32(op.End), op.Org)
	if err != nil {
		return nil, fmt.Errorf("parse: %v", err)
	}
	step := op.Step
	if step <= 0 {
		step = 1
	}
	var list []*structs.MetricsQuery
	var hashes []uint64
	var tr *dtu.MetricsTimeRange
	for i := range reqs {
		reqs[i].MetricsQuery.Downsampler.Interval = int(step)
		reqs[i].MetricsQuery.Downsampler.Unit = "s"
		hashes = append(hashes, reqs[i].MetricsQuery.QueryHash)
		list = append(list, &reqs[i].MetricsQuery)
		tr = &reqs[i].TimeRange
	}
	res := segment.ExecuteMultipleMetricsQuery(hashes, list, arith, tr, qid, false)
	out := &MQueryResult{Series: map[string][]MPoint{}}
	if res == nil {
		return out, fmt.Errorf("nil result")
	}
	for _, e := range res.ErrList {
		out.Errors = append(out.Errors, e.Error())
	}
	out.Scalar = res.IsScalar
	for sid, pts := range res.Results {
		var l []MPoint
		for t, v := range pts {
			l = append(l, MPoint{T: t, Bits: fmt.Sprintf("%016x", math.Float64bits(v)), V: fmt.Sprint(v)})
		}
		sort.Slice(l, func(i, j int) bool { return l[i].T < l[j].T })
		out.Series[sid] = l
	}
	return out, nil
}

func init() {
	extra["walread"] = walread
	extra["mnames"] = mnames
	extra["mrotate"] = mrotate
}

// mrotate: the size-based rotation of every open metrics segment (CheckAndRotate with the segment size limit
// at one byte): new segment suffix, metrics meta entry written, tags tree kept (it rotates at most daily).
func mrotate(op *plan.Op) (interface{}, error) {
	saved := sutils.MAX_BYTES_METRICS_SEGMENT
	sutils.MAX_BYTES_METRICS_SEGMENT = 1
	defer func() { sutils.MAX_BYTES_METRICS_SEGMENT = saved }()
	n := 0
	for _, mSeg := range metrics.GetAllMetricsSegments() {
		if err := mSeg.CheckAndRotate(false); err != nil {
			return nil, err
		}
		n++
	}
	return map[string]interface{}{"segments": n}, nil
}

// walread runs the real WAL iterator of the given kind over one file and returns the decoded sequence.
func walread(op *plan.Op) (interface{}, error) {
	kind, _ := op.Args["kind"].(string)
	var out []string
	switch kind {
	case "mname":
		it, err := wal.NewMNameWalReader(op.Name)
		if err != nil {
			return map[string]interface{}{"open_error": err.Error()}, nil
		}
		defer it.Close()
		for len(out) < 1_000_000 {
			s, err := it.Next()
			if err != nil {
				return map[string]interface{}{"seq": out, "stop_error": err.Error()}, nil
			}
			if s == nil {
				break
			}
			out = append(out, *s)
		}
	case "mentry":
		it, err := wal.NewMetricsMetaEntryWalReader(op.Name)
		if err != nil {
			return map[string]interface{}{"open_error": err.Error()}, nil
		}
		defer it.Close()
		for len(out) < 1_000_000 {
			m, err := it.Next()
			if err != nil {
				return map[string]interface{}{"seq": out, "stop_error": err.Error()}, nil
			}
			if m == nil {
				break
			}
			out = append(out, fmt.Sprintf("%s|%d|%d|%d|%d", m.MSegmentDir, m.NumBlocks, m.EarliestEpochSec, m.LatestEpochSec, m.DatapointCount))
		}
	default:
		it, err := wal.NewWALReader(op.Name)
		if err != nil {
			return map[string]interface{}{"open_error": err.Error()}, nil
		}
		defer it.Close()
		for len(out) < 5_000_000 {
			dp, err := it.Next()
			if err != nil {
				return map[string]interface{}{"seq": out, "stop_error": err.Error()}, nil
			}
			if dp == nil {
				break
			}
			out = append(out, fmt.Sprintf("%d|%016x|%d", dp.Timestamp, math.Float64bits(dp.DpVal), dp.Tsid))
		}
	}
	return map[string]interface{}{"seq": out}, nil
}

// mnames lists the metric names the query side knows for a time range.
func mnames(op *plan.Op) (interface{}, error) {
	names, err := query.GetAllMetricNamesOverTheTimeRange(&dtu.MetricsTimeRange{StartEpochSec: uint32(op.Start), EndEpochSec: uint32(op.End)}, op.Org)
	sort.Strings(names)
	return map[string]interface{}{"names": names}, err
}
