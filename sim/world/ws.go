package world

import (
	"encoding/json"
	"fmt"
	"net"
	"time"

	"simlens/plan"
	"simlens/simnet"
	"simlens/simrt"

	"github.com/fasthttp/websocket"
)

func init() {
	extra["ws_query"] = wsQueryOp
}

// ws_query: an asynchronous search over the real websocket route (/api/search/ws) of the query server, through
// a synchronous in-memory pipe. Args: read = number of messages to read before the client stops reading
// (-1: until the server closes or the terminal state arrives), hold_ms = how long a client that stopped reading
// keeps the connection open (simulated time) before closing it.
func wsQueryOp(op *plan.Op) (interface{}, error) {
	read := -1
	if v, ok := op.Args["read"].(float64); ok {
		read = int(v)
	}
	holdMs := int64(0)
	if v, ok := op.Args["hold_ms"].(float64); ok {
		holdMs = int64(v)
	}
	d := websocket.Dialer{NetDial: func(network, addr string) (net.Conn, error) { return simnet.DialSync("sim:5122") }, HandshakeTimeout: time.Hour}
	simrt.Yield("ws-dial")
	conn, _, err := d.Dial("ws://sim/api/search/ws", nil)
	simrt.Park("ws-dialed")
	if err != nil {
		return nil, fmt.Errorf("ws dial: %v", err)
	}
	defer conn.Close()
	lang := op.Lang
	if lang == "" {
		lang = "Splunk QL"
	}
	ev := map[string]interface{}{"state": "query", "searchText": op.Text, "indexName": op.Index, "startEpoch": op.Start, "endEpoch": op.End,
		"queryLanguage": lang, "from": 0, "size": op.Size}
	if err := conn.WriteJSON(ev); err != nil {
		simrt.Park("ws-write-failed")
		return nil, fmt.Errorf("ws write: %v", err)
	}
	var states []string
	terminal := ""
	for n := 0; read < 0 || n < read; n++ {
		_, msg, err := conn.ReadMessage()
		simrt.Park("ws-message")
		if err != nil {
			terminal = "closed:" + err.Error()
			break
		}
		var m struct {
			State string `json:"state"`
		}
		_ = json.Unmarshal(msg, &m)
		states = append(states, m.State)
		if m.State == "COMPLETE" || m.State == "ERROR" || m.State == "CANCELLED" || m.State == "TIMEOUT" {
			terminal = m.State
			break
		}
	}
	stalled := false
	if terminal == "" {
		// the client stops reading: the server's next write blocks on the pipe
		stalled = true
		simrt.Sleep(time.Duration(holdMs) * time.Millisecond)
	}
	return map[string]interface{}{"states": states, "terminal": terminal, "stalled": stalled}, nil
}
