package world

import (
	"encoding/hex"
	"encoding/json"
	"fmt"
	"sort"

	"simlens/plan"

	collogpb "go.opentelemetry.io/proto/otlp/collector/logs/v1"
	commonpb "go.opentelemetry.io/proto/otlp/common/v1"
	logpb "go.opentelemetry.io/proto/otlp/logs/v1"
	resourcepb "go.opentelemetry.io/proto/otlp/resource/v1"
	"google.golang.org/protobuf/proto"
)

func init() {
	extra["otlp_logs"] = otlpLogsOp
}

// LogSpec is one log record of an otlp_logs op (op.Body = JSON object {"groups":[{res,scope,scope_attrs,recs}]}).
type LogSpec struct {
	Attrs   map[string]string `json:"attrs"`           // string attributes
	Ints    map[string]int64  `json:"ints,omitempty"`  // integer attributes
	Body    string            `json:"body"`            // string body
	TNs     uint64            `json:"t_ns"`            // 0 = the record carries no time
	ObsNs   uint64            `json:"obs_ns,omitempty"` // observed time (never the event time)
	SevText string            `json:"sev,omitempty"`
	SevNum  int32             `json:"sevn,omitempty"`
	Trace   string            `json:"trace,omitempty"` // hex
	Span    string            `json:"span,omitempty"`  // hex
}

type LogGroup struct {
	Res        map[string]string `json:"res"` // resource attributes
	NoResource bool              `json:"no_res,omitempty"`
	Scope      string            `json:"scope"`
	ScopeVer   string            `json:"scope_ver,omitempty"`
	ScopeAttrs map[string]string `json:"scope_attrs,omitempty"`
	Recs       []LogSpec         `json:"recs"`
	// SplitScopes: every record in its own ScopeLogs entry of the same resource
	SplitScopes bool `json:"split,omitempty"`
}

func strKV(m map[string]string) []*commonpb.KeyValue {
	keys := make([]string, 0, len(m))
	for k := range m {
		keys = append(keys, k)
	}
	sort.Strings(keys)
	var out []*commonpb.KeyValue
	for _, k := range keys {
		out = append(out, &commonpb.KeyValue{Key: k, Value: &commonpb.AnyValue{Value: &commonpb.AnyValue_StringValue{StringValue: m[k]}}})
	}
	return out
}

// otlp_logs: an OTLP/HTTP protobuf logs export request to the real ingest route.
func otlpLogsOp(op *plan.Op) (interface{}, error) {
	var spec struct {
		Groups []LogGroup `json:"groups"`
	}
	if err := json.Unmarshal([]byte(op.Body), &spec); err != nil {
		return nil, fmt.Errorf("otlp_logs: %v", err)
	}
	req := &collogpb.ExportLogsServiceRequest{}
	n := 0
	for _, g := range spec.Groups {
		rl := &logpb.ResourceLogs{}
		if !g.NoResource {
			rl.Resource = &resourcepb.Resource{Attributes: strKV(g.Res)}
		}
		newScope := func() *logpb.ScopeLogs {
			sl := &logpb.ScopeLogs{Scope: &commonpb.InstrumentationScope{Name: g.Scope, Version: g.ScopeVer, Attributes: strKV(g.ScopeAttrs)}}
			rl.ScopeLogs = append(rl.ScopeLogs, sl)
			return sl
		}
		var sl *logpb.ScopeLogs
		for _, rs := range g.Recs {
			if sl == nil || g.SplitScopes {
				sl = newScope()
			}
			rec := &logpb.LogRecord{TimeUnixNano: rs.TNs, ObservedTimeUnixNano: rs.ObsNs, SeverityText: rs.SevText,
				SeverityNumber: logpb.SeverityNumber(rs.SevNum),
				Body:           &commonpb.AnyValue{Value: &commonpb.AnyValue_StringValue{StringValue: rs.Body}},
				Attributes:     strKV(rs.Attrs)}
			ik := make([]string, 0, len(rs.Ints))
			for k := range rs.Ints {
				ik = append(ik, k)
			}
			sort.Strings(ik)
			for _, k := range ik {
				rec.Attributes = append(rec.Attributes, &commonpb.KeyValue{Key: k, Value: &commonpb.AnyValue{Value: &commonpb.AnyValue_IntValue{IntValue: rs.Ints[k]}}})
			}
			if rs.Trace != "" {
				rec.TraceId, _ = hex.DecodeString(rs.Trace)
			}
			if rs.Span != "" {
				rec.SpanId, _ = hex.DecodeString(rs.Span)
			}
			sl.LogRecords = append(sl.LogRecords, rec)
			n++
		}
		req.ResourceLogs = append(req.ResourceLogs, rl)
	}
	b, err := proto.Marshal(req)
	if err != nil {
		return nil, err
	}
	r, err := HTTP("ingest", "POST", "/otlp/v1/logs", map[string]string{"Content-Type": "application/x-protobuf"}, b)
	if err != nil {
		return nil, err
	}
	out := map[string]interface{}{"status": r.Status, "records": n}
	// the response body is an ExportLogsServiceResponse: partial success names the rejected count
	var resp collogpb.ExportLogsServiceResponse
	if r.Status == 200 && proto.Unmarshal([]byte(r.Body), &resp) == nil && resp.PartialSuccess != nil {
		out["rejected"] = resp.PartialSuccess.RejectedLogRecords
	}
	return out, nil
}
