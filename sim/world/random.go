package world

import (
	"math/rand/v2"

	"github.com/google/uuid"
)

// SeedRandom replaces the entropy source of github.com/google/uuid (crypto/rand by default) by a PRNG derived
// from the plan seed and the incarnation number: generated ids (alerts, contacts, dashboards, folders) key maps
// whose iteration order reaches the scheduler, so they must be a function of the plan for exact replay.
func SeedRandom(seed uint64, inc int) {
	uuid.SetRand(&pcgReader{r: rand.New(rand.NewPCG(seed^0x9e3779b97f4a7c15, uint64(inc)+1))})
}

type pcgReader struct{ r *rand.Rand }

func (p *pcgReader) Read(b []byte) (int, error) {
	for i := range b {
		b[i] = byte(p.r.Uint32())
	}
	return len(b), nil
}
