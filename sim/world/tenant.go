package world

import (
	"fmt"
	"sort"
	"strings"
	"time"

	"simlens/plan"
	"simlens/simnet"
	"simlens/simrt"

	"github.com/siglens/siglens/pkg/config"
	eswriter "github.com/siglens/siglens/pkg/es/writer"
	"github.com/siglens/siglens/pkg/retention"
	segmetadata "github.com/siglens/siglens/pkg/segment/metadata"
	"github.com/siglens/siglens/pkg/segment/query"
	vtable "github.com/siglens/siglens/pkg/virtualtable"
	"github.com/valyala/fasthttp"
)

func init() {
	extra["delete_index"] = deleteIndexOp
	extra["alias"] = aliasOp
	extra["indexes"] = indexesOp
}

// delete_index: the real delete handler (wildcards accepted) for organisation op.Org.
func deleteIndexOp(op *plan.Op) (interface{}, error) {
	var ctx fasthttp.RequestCtx
	ctx.Init(&fasthttp.Request{}, nil, nil)
	ctx.SetUserValue("indexName", op.Index)
	eswriter.ProcessDeleteIndex(&ctx, op.Org)
	return map[string]interface{}{"status": ctx.Response.StatusCode(), "body": string(ctx.Response.Body())}, nil
}

// alias: Args{op: add|remove}, Index, Name (alias).
func aliasOp(op *plan.Op) (interface{}, error) {
	what, _ := op.Args["op"].(string)
	var err error
	if what == "remove" {
		err = vtable.RemoveAliases(op.Index, []string{op.Name}, op.Org)
	} else {
		err = vtable.AddAliases(op.Index, []string{op.Name}, op.Org)
	}
	if err != nil {
		return nil, fmt.Errorf("alias %s: %v", what, err)
	}
	return nil, nil
}

func indexesOp(op *plan.Op) (interface{}, error) {
	m, err := vtable.GetVirtualTableNames(op.Org)
	var names []string
	for k := range m {
		names = append(names, k)
	}
	return map[string]interface{}{"names": names}, err
}

func init() {
	extra["retention"] = retentionOp
}

// retention: one time-based retention pass with the given horizon (hours), the function the cleaner loop calls.
func retentionOp(op *plan.Op) (interface{}, error) {
	hours := 24
	if h, ok := op.Args["hours"].(float64); ok {
		hours = int(h)
	}
	retention.DoRetentionBasedDeletion(config.GetCurrentNodeIngestDir(), hours, op.Org)
	// the three in-memory views of the rotated segments (global list, reverse index, per-index list read by the
	// query path) after the pass: sorted segment keys relative to the data directory
	rel := func(k string) string {
		if i := strings.Index(k, "/final/"); i >= 0 {
			return k[i+1:]
		}
		return k
	}
	var global, rev, table []string
	for _, smi := range segmetadata.GetAllSegmentMicroIndexForTest() {
		global = append(global, rel(smi.SegmentKey))
	}
	for k := range segmetadata.GetSegmentMetadataReverseIndexForTest() {
		rev = append(rev, rel(k))
	}
	for _, l := range segmetadata.GetTableSortedMetadata() {
		for _, smi := range l {
			table = append(table, rel(smi.SegmentKey))
		}
	}
	sort.Strings(global)
	sort.Strings(rev)
	sort.Strings(table)
	return map[string]interface{}{"mem_global": global, "mem_reverse": rev, "mem_per_index": table}, nil
}

func init() {
	extra["cancel"] = func(op *plan.Op) (interface{}, error) {
		qid := uint64(0)
		if v, ok := op.Args["qid"].(float64); ok {
			qid = uint64(v)
		}
		query.CancelQuery(qid)
		return nil, nil
	}
	extra["qstats"] = func(op *plan.Op) (interface{}, error) {
		return map[string]interface{}{
			"active":  query.GetActiveQueryCount(),
			"waiting": len(query.GetWaitingQueries()),
			"max":     query.MAX_RUNNING_QUERIES,
			"tasks":   simrt.LiveTasks(),
			"dump":    simrt.Dump(),
		}, nil
	}
	// qwatch: a busy watcher of the admission limit. It reads the running count at every scheduling opportunity
	// for `rounds` milliseconds of simulated time (`iters` reads per millisecond) and reports the largest value
	// seen - an admission overshoot lasts only as long as the extra query runs, a poll every few milliseconds
	// rarely meets it.
	extra["qwatch"] = func(op *plan.Op) (interface{}, error) {
		iters, rounds := 50, 40
		if v, ok := op.Args["iters"].(float64); ok {
			iters = int(v)
		}
		if v, ok := op.Args["rounds"].(float64); ok {
			rounds = int(v)
		}
		maxActive, at := 0, int64(0)
		for r := 0; r < rounds; r++ {
			for i := 0; i < iters; i++ {
				if a := query.GetActiveQueryCount(); a > maxActive {
					maxActive, at = a, time.Now().UnixMilli()
				}
				simrt.Yield("qwatch")
			}
			simrt.Sleep(time.Millisecond)
		}
		return map[string]interface{}{"max_active": maxActive, "at_ms": at, "max": query.MAX_RUNNING_QUERIES}, nil
	}
	extra["stall"] = func(op *plan.Op) (interface{}, error) {
		prefix, _ := op.Args["prefix"].(string)
		n := simrt.Stall(prefix, time.Duration(op.DurMs)*time.Millisecond)
		return map[string]interface{}{"stalled": n}, nil
	}
}

func init() {
	extra["deliveries"] = func(op *plan.Op) (interface{}, error) {
		return map[string]interface{}{"deliveries": simnet.Deliveries()}, nil
	}
	extra["fail_deliveries"] = func(op *plan.Op) (interface{}, error) {
		n := 0
		if v, ok := op.Args["n"].(float64); ok {
			n = int(v)
		}
		simnet.FailDeliveries(n)
		return nil, nil
	}
}
