package world

import (
	"bufio"
	"bytes"
	"encoding/base64"
	"fmt"
	"io"
	"net/http"
	"strings"
	"time"

	"simlens/plan"
	"simlens/simnet"
	"simlens/simrt"
)

func init() {
	extra["http"] = httpOp
}

// HTTPResult is what the journal records for a request through the in-memory listener.
type HTTPResult struct {
	Status int    `json:"status"`
	Body   string `json:"body"`
	CType  string `json:"ctype,omitempty"`
}

// HTTP sends one request to the ingest ("ingest") or query ("query") server through the in-memory
// listener: the real fasthttp server, router, middleware and handler run.
func HTTP(server, method, path string, headers map[string]string, body []byte) (*HTTPResult, error) {
	addr := "sim:8081"
	if server == "query" {
		addr = "sim:5122"
	}
	conn, err := simnet.Dial(addr)
	if err != nil {
		return nil, err
	}
	defer conn.Close()
	_ = conn.SetDeadline(time.Now().Add(20 * time.Minute))
	var req bytes.Buffer
	fmt.Fprintf(&req, "%s %s HTTP/1.1\r\nHost: sim\r\nConnection: close\r\nContent-Length: %d\r\n", method, path, len(body))
	for k, v := range headers {
		fmt.Fprintf(&req, "%s: %s\r\n", k, v)
	}
	req.WriteString("\r\n")
	req.Write(body)
	simrt.Yield("http-send")
	if _, err := conn.Write(req.Bytes()); err != nil {
		simrt.Park("http-write-failed")
		return nil, err
	}
	resp, err := http.ReadResponse(bufio.NewReader(conn), nil)
	simrt.Park("http-response")
	if err != nil {
		return nil, err
	}
	defer resp.Body.Close()
	b, _ := io.ReadAll(resp.Body)
	simrt.Park("http-body")
	return &HTTPResult{Status: resp.StatusCode, Body: string(b), CType: resp.Header.Get("Content-Type")}, nil
}

// http op: Args{server, method, path, headers}; Body (base64 when Bin).
func httpOp(op *plan.Op) (interface{}, error) {
	server, _ := op.Args["server"].(string)
	method, _ := op.Args["method"].(string)
	path, _ := op.Args["path"].(string)
	if method == "" {
		method = "POST"
	}
	hdr := map[string]string{}
	if h, ok := op.Args["headers"].(map[string]interface{}); ok {
		for k, v := range h {
			hdr[k] = fmt.Sprint(v)
		}
	}
	body := []byte(op.Body)
	if op.Bin {
		b, err := base64.StdEncoding.DecodeString(strings.TrimSpace(op.Body))
		if err != nil {
			return nil, err
		}
		body = b
	}
	return HTTP(server, method, path, hdr, body)
}
