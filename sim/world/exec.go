package world

import (
	"fmt"
	"time"

	"simlens/plan"

	"github.com/siglens/siglens/cmd/startup"
	"simlens/simrt"
)

// Reinit re-creates package-level objects that must live inside the bubble.
func Reinit() { simrt.RunReinits() }

// Exec dispatches one operation to the real entry point behind it.
func Exec(op *plan.Op) (interface{}, error) {
	switch op.Kind {
	case "ingest":
		body := []byte(op.Body)
		if len(op.Events) > 0 {
			body = BulkBody(op.Index, op.Events)
		}
		n, resp, err := IngestBulk(op.Org, body)
		return map[string]interface{}{"processed": n, "resp": resp}, err
	case "flush":
		Flush()
		return nil, nil
	case "rotate":
		Rotate()
		return nil, nil
	case "advance":
		Advance(time.Duration(op.DurMs) * time.Millisecond)
		return nil, nil
	case "query":
		return Query(op)
	case "shutdown":
		// graceful shutdown: the shipped shutdown sequence (flushes buffers, closes the database)
		startup.ShutdownSiglensServer(false)
		return nil, nil
	default:
		if f, ok := extra[op.Kind]; ok {
			return f(op)
		}
		return nil, fmt.Errorf("world: unknown op kind %q", op.Kind)
	}
}

var extra = map[string]func(*plan.Op) (interface{}, error){}
