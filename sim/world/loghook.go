package world

import (
	"strings"
	"sync"

	log "github.com/sirupsen/logrus"
)

// errorLogHook counts the node's error-level log lines by the function name that leads the message
// ("CheckMicroIndicesForUnrotated: ..."). Oracles use the counts to name the call site behind a wrong answer
// (the response itself carries no error in those cases); they never decide a verdict on their own.
type errorLogHook struct {
	mu sync.Mutex
	n  map[string]int
}

var errHook = &errorLogHook{n: map[string]int{}}

func (h *errorLogHook) Levels() []log.Level { return []log.Level{log.ErrorLevel} }

func (h *errorLogHook) Fire(e *log.Entry) error {
	msg := e.Message
	if strings.HasPrefix(msg, "qid=") {
		if i := strings.Index(msg, ", "); i > 0 {
			msg = msg[i+2:]
		}
	}
	key := msg
	if i := strings.IndexByte(msg, ':'); i > 0 && i < 80 {
		key = msg[:i]
	} else if len(key) > 60 {
		key = key[:60]
	}
	h.mu.Lock()
	h.n[key]++
	h.mu.Unlock()
	return nil
}

// ErrorLogCounts returns error-level log line counts by leading function name.
func ErrorLogCounts() map[string]int {
	errHook.mu.Lock()
	defer errHook.mu.Unlock()
	out := make(map[string]int, len(errHook.n))
	for k, v := range errHook.n {
		out[k] = v
	}
	return out
}

func installLogHook() { log.AddHook(errHook) }
