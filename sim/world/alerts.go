package world

import (
	"encoding/json"
	"fmt"

	"simlens/plan"
)

func init() {
	extra["alert_create"] = alertCreate
	extra["alert_state"] = alertState
}

func httpJSON(server, method, path string, body interface{}) (map[string]interface{}, int, error) {
	var b []byte
	if body != nil {
		b, _ = json.Marshal(body)
	}
	r, err := HTTP(server, method, path, nil, b)
	if err != nil {
		return nil, 0, err
	}
	var m map[string]interface{}
	_ = json.Unmarshal([]byte(r.Body), &m)
	if m == nil {
		m = map[string]interface{}{"raw": r.Body}
	}
	return m, r.Status, nil
}

// alert_create: contact point with a webhook (created on first use), then the alert, through the HTTP API.
// Args: name, eval_for, eval_interval (minutes), condition, value, query, index.
func alertCreate(op *plan.Op) (interface{}, error) {
	name := op.Name
	contact := "contact-" + name
	_, st, err := httpJSON("query", "POST", "/api/alerts/createContact", map[string]interface{}{
		"contact_name": contact, "webhook": []interface{}{map[string]interface{}{"webhook": "http://hook.test/" + name}}})
	if err != nil || st != 200 {
		return nil, fmt.Errorf("createContact: status %d err %v", st, err)
	}
	cs, _, err := httpJSON("query", "GET", "/api/alerts/allContacts", nil)
	if err != nil {
		return nil, err
	}
	cid := ""
	if l, ok := cs["contacts"].([]interface{}); ok {
		for _, c := range l {
			if cm, ok := c.(map[string]interface{}); ok && cm["contact_name"] == contact {
				cid, _ = cm["contact_id"].(string)
			}
		}
	}
	if cid == "" {
		return nil, fmt.Errorf("contact %s not listed after creation", contact)
	}
	num := func(k string, def float64) float64 {
		if v, ok := op.Args[k].(float64); ok {
			return v
		}
		return def
	}
	query, _ := op.Args["query"].(string)
	interval := num("eval_interval", 1)
	body := map[string]interface{}{
		"alert_name": name, "alert_type": 1, "contact_id": cid, "contact_name": contact,
		"queryParams": map[string]interface{}{"data_source": "Logs", "queryLanguage": "Splunk QL", "queryText": query,
			"startTime": fmt.Sprintf("now-%dm", int(interval)), "endTime": "now", "index": op.Index, "queryMode": "Builder"},
		"condition": num("condition", 0), "value": num("value", 0), "eval_for": num("eval_for", 1), "eval_interval": interval,
		"message": "alert " + name, "labels": []interface{}{},
	}
	resp, st, err := httpJSON("query", "POST", "/api/alerts/create", body)
	if err != nil || st != 200 {
		return nil, fmt.Errorf("create alert: status %d %v err %v", st, resp, err)
	}
	settleCron()
	return map[string]interface{}{"contact_id": cid}, nil
}

// alert_state: state, evaluation count and history of the alert called op.Name.
func alertState(op *plan.Op) (interface{}, error) {
	all, _, err := httpJSON("query", "GET", "/api/allalerts", nil)
	if err != nil {
		return nil, err
	}
	var found map[string]interface{}
	if l, ok := all["alerts"].([]interface{}); ok {
		for _, a := range l {
			if am, ok := a.(map[string]interface{}); ok && am["alert_name"] == op.Name {
				found = am
			}
		}
	}
	if found == nil {
		return map[string]interface{}{"exists": false, "raw": all}, nil
	}
	id, _ := found["alert_id"].(string)
	hist, _, _ := httpJSON("query", "GET", "/api/alerts/"+id+"/history?sort_order=ASC&limit=1000", nil)
	return map[string]interface{}{"exists": true, "state": found["state"], "num_evaluations": found["num_evaluations_count"], "history": hist["alertHistory"]}, nil
}
