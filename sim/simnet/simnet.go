// Package simnet is the simulated network seam: listeners are in-memory (the real fasthttp server and
// router run, no TCP socket is opened) and outbound HTTP/SMTP goes to a transport the simulator owns.
package simnet

import (
	"bytes"
	"errors"
	"fmt"
	"io"
	"net"
	"net/http"
	"net/smtp"
	"sync"
	"time"

	"github.com/valyala/fasthttp/fasthttputil"
)

// simListener: the in-memory listener of fasthttputil plus a second way in: connections made of a synchronous
// pipe (net.Pipe: a write blocks until the peer reads), for clients that must be able to exert back-pressure
// on the server (a websocket client that stops reading).
type simListener struct {
	*fasthttputil.InmemoryListener
	inject chan net.Conn
	acc    chan acceptResult
	pump   sync.Once
}

type acceptResult struct {
	c   net.Conn
	err error
}

func (l *simListener) Accept() (net.Conn, error) {
	l.pump.Do(func() {
		go func() {
			for {
				c, err := l.InmemoryListener.Accept()
				l.acc <- acceptResult{c, err}
				if err != nil {
					return
				}
			}
		}()
	})
	select {
	case c := <-l.inject:
		return c, nil
	case r := <-l.acc:
		return r.c, r.err
	}
}

// DialSync connects through a synchronous pipe (see simListener).
func DialSync(addr string) (net.Conn, error) {
	mu.Lock()
	ln := listeners[addr]
	mu.Unlock()
	if ln == nil {
		return nil, fmt.Errorf("simnet: nobody listens on %q", addr)
	}
	c1, c2 := net.Pipe()
	ln.inject <- c2
	return c1, nil
}

var (
	mu        sync.Mutex
	listeners = map[string]*simListener{}
	order     []string
	sent      []Delivery
	failNext  int
	failAll   bool
)

// Delivery is one outbound request the node attempted.
type Delivery struct {
	SimMs  int64  `json:"sim_ms"`
	Kind   string `json:"kind"` // http | smtp
	Method string `json:"method,omitempty"`
	URL    string `json:"url"`
	Body   string `json:"body,omitempty"`
	Failed bool   `json:"failed,omitempty"`
}

// Listen is the rewritten net.Listen: an in-memory listener registered under its address.
func Listen(network, addr string) (net.Listener, error) {
	mu.Lock()
	defer mu.Unlock()
	if _, dup := listeners[addr]; dup {
		return nil, &net.OpError{Op: "listen", Net: network, Err: errors.New("address already in use")}
	}
	ln := &simListener{InmemoryListener: fasthttputil.NewInmemoryListener(), inject: make(chan net.Conn, 64), acc: make(chan acceptResult)}
	listeners[addr] = ln
	order = append(order, addr)
	return ln, nil
}

// ListenAndServe is the rewritten http.ListenAndServe (prometheus exporter): blocks forever.
func ListenAndServe(addr string, h http.Handler) error {
	select {}
}

// Dial connects a client to the in-memory listener registered for addr.
func Dial(addr string) (net.Conn, error) {
	mu.Lock()
	ln := listeners[addr]
	mu.Unlock()
	if ln == nil {
		return nil, fmt.Errorf("simnet: nobody listens on %q", addr)
	}
	return ln.Dial()
}

func Addrs() []string {
	mu.Lock()
	defer mu.Unlock()
	return append([]string(nil), order...)
}

// FailDeliveries makes the next n outbound deliveries fail with a connection error (n<0: all).
func FailDeliveries(n int) {
	mu.Lock()
	if n < 0 {
		failAll = true
	} else {
		failAll = false
		failNext = n
	}
	mu.Unlock()
}

func Deliveries() []Delivery {
	mu.Lock()
	defer mu.Unlock()
	return append([]Delivery(nil), sent...)
}

func record(d Delivery) bool {
	mu.Lock()
	defer mu.Unlock()
	d.SimMs = time.Now().UnixMilli()
	if failAll || failNext > 0 {
		if failNext > 0 {
			failNext--
		}
		d.Failed = true
	}
	sent = append(sent, d)
	return !d.Failed
}

// Do is the rewritten (*http.Client).Do.
func Do(c *http.Client, req *http.Request) (*http.Response, error) {
	var body []byte
	if req.Body != nil {
		body, _ = io.ReadAll(req.Body)
		req.Body.Close()
	}
	ok := record(Delivery{Kind: "http", Method: req.Method, URL: req.URL.String(), Body: string(body)})
	if !ok {
		return nil, &net.OpError{Op: "dial", Net: "tcp", Err: errors.New("simnet: connection refused")}
	}
	return &http.Response{
		StatusCode: 200, Status: "200 OK", Proto: "HTTP/1.1", ProtoMajor: 1, ProtoMinor: 1,
		Header: http.Header{}, Body: io.NopCloser(bytes.NewReader([]byte("ok"))), Request: req,
	}, nil
}

// Get is the rewritten http.Get.
func Get(url string) (*http.Response, error) {
	req, err := http.NewRequest("GET", url, nil)
	if err != nil {
		return nil, err
	}
	return Do(nil, req)
}

// SendMail is the rewritten smtp.SendMail.
func SendMail(addr string, a smtp.Auth, from string, to []string, msg []byte) error {
	ok := record(Delivery{Kind: "smtp", URL: addr, Body: string(msg)})
	if !ok {
		return errors.New("simnet: smtp connection refused")
	}
	return nil
}
