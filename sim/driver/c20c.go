package main

import (
	"encoding/json"
	"fmt"
	"sort"
	"strings"

	"simlens/plan"
)

type crudAnswer struct {
	Status int             `json:"status"`
	Body   json.RawMessage `json:"body"`
}

func symOf(s string) string {
	if strings.HasPrefix(s, "${") && strings.HasSuffix(s, "}") {
		return s[2 : len(s)-1]
	}
	return s
}

func sortedStrs(xs []string) []string {
	out := append([]string(nil), xs...)
	sort.Strings(out)
	return out
}

func crudOracle(prop string, res *RunResult) []Violation {
	var vs []Violation
	// descriptors are read in their JSON form (a generated plan still holds Go-typed maps)
	planJ := res.Plan.Clone()
	lenient := res.Plan.Params["crash_mode"] == true
	m := newCrudModel()
	bad := func(kind, where string, c cop, format string, a ...any) {
		vs = append(vs, Violation{Sig: prop + ":crud:" + c.s("t") + ":" + kind, Msg: where + " " + fmt.Sprint(map[string]any(c)) + ": " + fmt.Sprintf(format, a...)})
	}
	var handle func(where string, op *plan.Op, e *plan.Entry)
	handle = func(where string, op *plan.Op, e *plan.Entry) {
		cm, ok := op.Args["c"].(map[string]any)
		if !ok {
			return
		}
		c := cop(cm)
		if e.Err != "" {
			bad("harness-error", where, c, "%s", e.Err)
			return
		}
		var ans crudAnswer
		if json.Unmarshal(e.Data, &ans) != nil {
			return
		}
		body := ans.Body
		if op.Kind == "http" {
			// HTTP answers carry the body as a string
			var s string
			if json.Unmarshal(ans.Body, &s) == nil {
				body = json.RawMessage(s)
			}
		}
		ack := ans.Status == 200
		exp := m.expect(c)
		t := c.s("t")
		org := int64(c.i("org"))
		if ans.Status >= 500 {
			bad("server-error", where, c, "status %d: %s", ans.Status, trimTo(string(body), 300))
		}
		switch {
		case exp == "ok" && !ack:
			bad("rejected", where, c, "a valid operation was rejected: status %d %s", ans.Status, trimTo(string(body), 300))
		case exp == "fail" && ack:
			if c.b("foreign") {
				bad("foreign-acknowledged", where, c, "organisation %d operated on another organisation's object: status 200 %s", org, trimTo(string(body), 200))
			} else {
				bad("invalid-acknowledged", where, c, "an operation the keyed store must refuse was acknowledged: %s", trimTo(string(body), 200))
			}
		}
		// reads: compare with the model
		if ack {
			switch t {
			case "dash.get":
				it := m.d(org)[c.s("sym")]
				if it == nil {
					break
				}
				var d struct {
					Name   string `json:"name"`
					Desc   string `json:"description"`
					Note   string `json:"note"`
					Fav    bool   `json:"isFavorite"`
					Folder struct {
						ID string `json:"id"`
					} `json:"folder"`
				}
				_ = json.Unmarshal(body, &d)
				if d.Name != it.name || d.Desc != it.desc || d.Note != it.note || d.Fav != it.fav || symOf(d.Folder.ID) != it.parent {
					bad("stale-or-wrong-read", where, c, "want name=%q desc=%q note=%q fav=%v folder=%s, got %s", it.name, it.desc, it.note, it.fav, it.parent, trimTo(string(body), 400))
				}
			case "dash.favorite":
				it := m.d(org)[c.s("sym")]
				var d struct {
					Fav bool `json:"isFavorite"`
				}
				_ = json.Unmarshal(body, &d)
				if it != nil && d.Fav == it.fav {
					bad("wrong-toggle", where, c, "favourite was %v, toggle answered %v", it.fav, d.Fav)
				}
			case "dash.list":
				var l struct {
					Items []struct {
						ID, Name, Type, ParentID string
						IsStarred                bool
						Description              string
					} `json:"items"`
				}
				_ = json.Unmarshal(body, &l)
				got := map[string]string{}
				for _, x := range l.Items {
					k := symOf(x.ID)
					if lenient && k == x.ID && k != rootSym {
						continue // an object created by the operation the crash interrupted: its id was never learnt
					}
					if _, dup := got[k]; dup {
						bad("listed-twice", where, c, "%s listed twice", k)
					}
					got[k] = fmt.Sprintf("%s|%s|%s|%v|%s", x.Type, x.Name, symOf(x.ParentID), x.IsStarred, x.Description)
				}
				want := map[string]string{}
				for s, it := range m.d(org) {
					want[s] = fmt.Sprintf("%s|%s|%s|%v|%s", it.typ, it.name, it.parent, it.fav && it.typ == "dashboard", it.desc)
				}
				if d := diffMaps(want, got); d != "" {
					bad("list-differs", where, c, "%s", d)
				}
			case "folder.contents":
				var l struct {
					Items []struct {
						ID, Name, Type string
					} `json:"items"`
				}
				_ = json.Unmarshal(body, &l)
				got := map[string]string{}
				for _, x := range l.Items {
					if lenient && symOf(x.ID) == x.ID && x.ID != rootSym {
						continue
					}
					got[symOf(x.ID)] = x.Type + "|" + x.Name
				}
				want := map[string]string{}
				for s, it := range m.d(org) {
					if it.parent == c.s("sym") {
						want[s] = it.typ + "|" + it.name
					}
				}
				if d := diffMaps(want, got); d != "" {
					bad("contents-differ", where, c, "%s", d)
				}
			case "usq.get", "usq.getall":
				var got map[string]map[string]string
				if len(body) > 0 && string(body) != `""` {
					if err := json.Unmarshal(body, &got); err != nil {
						bad("unreadable", where, c, "%v: %s", err, trimTo(string(body), 200))
						break
					}
				}
				want := map[string]string{}
				gotf := map[string]string{}
				for n, f := range m.usq[org] {
					if t == "usq.get" && n != c.s("name") {
						continue
					}
					want[n] = jsonStr2(f)
				}
				for n, f := range got {
					gotf[n] = jsonStr2(f)
				}
				if d := diffMaps(want, gotf); d != "" {
					bad("read-differs", where, c, "%s", d)
				}
			case "contact.list":
				var l struct {
					Contacts []struct {
						ID      string   `json:"contact_id"`
						Name    string   `json:"contact_name"`
						Email   []string `json:"email"`
						Webhook []struct {
							Webhook string `json:"webhook"`
						} `json:"webhook"`
						Org int64 `json:"org_id"`
					} `json:"contacts"`
				}
				_ = json.Unmarshal(body, &l)
				got := map[string]string{}
				for _, x := range l.Contacts {
					var wh []string
					for _, w := range x.Webhook {
						wh = append(wh, w.Webhook)
					}
					got[symOf(x.ID)] = fmt.Sprintf("%s|%v|%v", x.Name, sortedStrs(x.Email), sortedStrs(wh))
				}
				want := map[string]string{}
				for s, x := range m.contacts {
					if x.org == org {
						want[s] = fmt.Sprintf("%s|%v|%v", x.name, sortedStrs(x.emails), sortedStrs(x.webhooks))
					}
				}
				if d := diffMaps(want, got); d != "" {
					bad("list-differs", where, c, "%s", d)
				}
			case "alert.list", "alert.get":
				type alertJ struct {
					ID      string  `json:"alert_id"`
					Name    string  `json:"alert_name"`
					Contact string  `json:"contact_id"`
					Cond    int     `json:"condition"`
					Value   float64 `json:"value"`
					Window  int     `json:"eval_for"`
					Intvl   int     `json:"eval_interval"`
					Message string  `json:"message"`
					QP      struct {
						Text string `json:"queryText"`
					} `json:"queryParams"`
					Labels []struct {
						N string `json:"label_name"`
						V string `json:"label_value"`
					} `json:"labels"`
				}
				var list []alertJ
				if t == "alert.list" {
					var l struct {
						Alerts []alertJ `json:"alerts"`
					}
					_ = json.Unmarshal(body, &l)
					list = l.Alerts
				} else {
					var l struct {
						Alert alertJ `json:"alert"`
					}
					_ = json.Unmarshal(body, &l)
					if l.Alert.ID != "" {
						list = []alertJ{l.Alert}
					}
				}
				render := func(name, contact string, cond int, value float64, window, intvl int, msg, text string) string {
					return fmt.Sprintf("%s|%s|%d|%v|%d|%d|%s|%s", name, contact, cond, value, window, intvl, msg, text)
				}
				got := map[string]string{}
				gotLabels := map[string]map[string]string{}
				for _, x := range list {
					lm := map[string]string{}
					for _, l := range x.Labels {
						lm[l.N] = l.V
					}
					got[symOf(x.ID)] = render(x.Name, symOf(x.Contact), x.Cond, x.Value, x.Window, x.Intvl, x.Message, x.QP.Text)
					gotLabels[symOf(x.ID)] = lm
				}
				want := map[string]string{}
				for s, a := range m.alerts {
					if (t == "alert.list" && a.org == org) || (t == "alert.get" && s == c.s("sym")) {
						want[s] = render(a.name, a.contact, a.cond, a.value, a.window, a.intvl, a.message, a.text)
					}
				}
				if d := diffMaps(want, got); d != "" {
					bad("read-differs", where, c, "%s", d)
				}
				// labels: the label table is keyed by label name alone, so the value of a name used by several
				// alerts is the last one written by any of them: recognised and reported as its own class
				for s := range want {
					a, gl := m.alerts[s], gotLabels[s]
					if gl == nil {
						continue
					}
					shared, other := "", ""
					for k, wv := range a.labels {
						if gv, ok := gl[k]; !ok {
							other += fmt.Sprintf(" %s: label %s missing;", s, k)
						} else if gv != wv {
							if m.lastLabel[k][gv] {
								shared += fmt.Sprintf(" %s: label %s=%q was written, %q (written by another alert) is read;", s, k, wv, gv)
							} else {
								other += fmt.Sprintf(" %s: label %s want %q got %q;", s, k, wv, gv)
							}
						}
					}
					for k := range gl {
						if _, ok := a.labels[k]; !ok {
							other += fmt.Sprintf(" %s: unexpected label %s;", s, k)
						}
					}
					if shared != "" {
						bad("label-value-shared-across-alerts", where, c, "%s", shared)
					}
					if other != "" {
						bad("labels-differ", where, c, "%s", other)
					}
				}
			case "alias.all":
				// alias -> indexes carrying it
				var got map[string][]string
				_ = json.Unmarshal(body, &got)
				gm := map[string]string{}
				for al, ixs := range got {
					if len(ixs) > 0 {
						gm[al] = fmt.Sprint(sortedStrs(ixs))
					}
				}
				inv := map[string][]string{}
				for ix, as := range m.aliases[org] {
					for a := range as {
						inv[a] = append(inv[a], ix)
					}
				}
				want := map[string]string{}
				for al, ixs := range inv {
					want[al] = fmt.Sprint(sortedStrs(ixs))
				}
				if d := diffMaps(want, gm); d != "" {
					bad("read-differs", where, c, "%s", d)
				}
			case "alias.resolve":
				var ix string
				_ = json.Unmarshal(body, &ix)
				if !m.aliases[org][ix][c.s("name")] {
					bad("read-differs", where, c, "alias resolves to %q which does not carry it", ix)
				}
			case "lookup.get":
				if string(body) != m.lookups[c.s("name")] {
					bad("read-differs", where, c, "want %q got %q", m.lookups[c.s("name")], trimTo(string(body), 200))
				}
			case "lookup.list":
				var got []string
				_ = json.Unmarshal(body, &got)
				gm, want := map[string]string{}, map[string]string{}
				for _, n := range got {
					gm[n] = "file"
				}
				for n := range m.lookups {
					want[n] = "file"
				}
				if d := diffMaps(want, gm); d != "" {
					bad("list-differs", where, c, "%s", d)
				}
			}
		}
		if ack && exp != "fail" {
			m.apply(c)
		}
		// an acknowledged operation that must have been refused is not applied: the following reads then show
		// whether it took effect
	}
	for ii, inc := range planJ.Incs {
		if ii >= len(res.Incs) {
			break
		}
		ir := res.Incs[ii]
		if ab := ir.Abnormal(); ab != "" {
			if ab == "harness" || ab == "wall-timeout" {
				return vs
			}
			site := ir.PanicSite()
			if ab == "hang" {
				site = ir.HangKind()
			}
			return append(vs, Violation{Sig: prop + ":crud:node-" + ab + ":" + site, Msg: trimTo(ir.Stderr, 1500)})
		}
		for oi := range inc.Ops {
			op := &inc.Ops[oi]
			if op.Kind == "par" {
				// clients own disjoint objects: replaying them client by client is one legal serialisation
				// (the shared label rows are the exception: every value any client writes may be the one read)
				for ci := range op.Par {
					for j := range op.Par[ci] {
						if cm, ok := op.Par[ci][j].Args["c"].(map[string]any); ok {
							if lm, ok := cm["labels"].(map[string]any); ok {
								for k, v := range lm {
									if m.lastLabel[k] == nil {
										m.lastLabel[k] = map[string]bool{}
									}
									m.lastLabel[k][fmt.Sprint(v)] = true
								}
							}
						}
					}
				}
				for ci := range op.Par {
					for j := range op.Par[ci] {
						if e := ir.Get(fmt.Sprintf("%d.%d.%d", oi, ci, j)); e != nil {
							handle(fmt.Sprintf("inc %d op %d client %d.%d", ii, oi, ci, j), &op.Par[ci][j], e)
						}
					}
				}
				continue
			}
			e := ir.Get(fmt.Sprint(oi))
			if e == nil {
				break
			}
			handle(fmt.Sprintf("inc %d op %d", ii, oi), op, e)
		}
	}
	return vs
}

func diffMaps(want, got map[string]string) string {
	var d []string
	for k, w := range want {
		g, ok := got[k]
		if !ok {
			d = append(d, fmt.Sprintf("missing %s (%s)", k, w))
		} else if g != w {
			d = append(d, fmt.Sprintf("%s: want %s got %s", k, w, g))
		}
	}
	for k, g := range got {
		if _, ok := want[k]; !ok {
			d = append(d, fmt.Sprintf("unexpected %s (%s)", k, g))
		}
	}
	sort.Strings(d)
	if len(d) > 6 {
		d = append(d[:6], fmt.Sprintf("... %d more", len(d)-6))
	}
	return strings.Join(d, "; ")
}
