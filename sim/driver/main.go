// check driver: generates plans from one seed, executes them through child incarnations, evaluates the
// property's oracle, shrinks failures, writes replay files and the evidence file.
package main

import (
	"bytes"
	"encoding/json"
	"flag"
	"fmt"
	"hash/fnv"
	"math/rand/v2"
	"os"
	"path/filepath"
	"regexp"
	"runtime"
	"sort"
	"strconv"
	"strings"
	"sync"
	"time"

	"simlens/plan"
)

type Violation struct {
	Sig string `json:"sig"` // oracle-computed class (not the seed)
	Msg string `json:"msg"`
}

// Check is one property's machinery.
type Check struct {
	ID     string
	Level  string // exploration | fault_enumeration
	Rule   string
	Run    func(c *Ctx)
	Oracle func(res *RunResult) []Violation
	// Exec runs a plan (default: RunPlan). Differential checks run every world of a world-set plan.
	Exec func(p *plan.Plan) (*RunResult, error)
	// Pinned: operations the shrinker must not drop because the oracle's expectations rest on them (the flush
	// and clock advances that make exported spans visible before a view is read); nil = every op may go.
	Pinned func(op *plan.Op) bool
	// Assumptions recorded in the evidence.
	Assumptions []string
	Components  map[string]string
}

var checks = map[string]*Check{}

func register(c *Check) { checks[c.ID] = c }

func (c *Check) exec(p *plan.Plan) (*RunResult, error) {
	if c.Exec != nil {
		return c.Exec(p)
	}
	return RunPlan(p, genericBetween)
}

// Ctx carries one check invocation.
type Ctx struct {
	Check *Check
	Tier  string
	Seed  uint64
	Root  string
	Start time.Time
	Deadline time.Time

	mu          sync.Mutex
	evals       int
	distinct    map[string]bool
	samples     []any
	faultCounts map[string]int
	probes      map[string]int
	simMs       int64
	fingerprints map[string]bool
	crashStates map[string]bool
	detRechecks int
	detExamples []string
	detMismatch int
	violations  []foundViolation
	known       map[string]string
	knownHit    map[string]int
	extra       map[string]any
	exhaustive  *bool
	harnessErr  []string
	stop        bool
	survey      map[string]int
	surveyEx    map[string]string
}

type foundViolation struct {
	V    Violation
	Plan *plan.Plan
}

func (c *Ctx) Rng(stream uint64) *rand.Rand {
	return rand.New(rand.NewPCG(c.Seed, stream*0x9e3779b97f4a7c15+0x1234567))
}

func (c *Ctx) Quick() bool { return c.Tier == "quick" }

func (c *Ctx) TimeLeft() time.Duration { return time.Until(c.Deadline) }

func (c *Ctx) Stopped() bool {
	c.mu.Lock()
	defer c.mu.Unlock()
	return c.stop || time.Now().After(c.Deadline)
}

func (c *Ctx) Probe(name string, n int) {
	c.mu.Lock()
	c.probes[name] += n
	c.mu.Unlock()
}

func (c *Ctx) Harness(msg string) {
	c.mu.Lock()
	c.harnessErr = append(c.harnessErr, msg)
	c.mu.Unlock()
}

func (c *Ctx) SetExtra(k string, v any) {
	c.mu.Lock()
	c.extra[k] = v
	c.mu.Unlock()
}

// Account records one executed plan in the evidence counters. key identifies the case for the distinct
// count; nontrivial says whether it counts as non-trivial under the check's rule.
func (c *Ctx) Account(res *RunResult, key string, nontrivial bool, sample any) {
	c.mu.Lock()
	defer c.mu.Unlock()
	c.evals++
	if nontrivial && key != "" {
		c.distinct[key] = true
	}
	if sample != nil && len(c.samples) < 3 {
		c.samples = append(c.samples, sample)
	}
	allIncs := append([]*IncResult(nil), res.Incs...)
	for _, s := range res.Sub {
		allIncs = append(allIncs, s.Incs...)
	}
	// faults and perturbations that are part of the plan itself (the disk seam reports its own through "fired")
	plans := []*plan.Plan{res.Plan}
	for _, s := range res.Sub {
		plans = append(plans, s.Plan)
	}
	for _, p := range plans {
		if p == nil {
			continue
		}
		if p.Knobs.PreemptPermille > 0 {
			c.faultCounts["runs_with_forced_preemption"]++
		}
		if p.Knobs.DelayPermille > 0 || len(p.Knobs.DelaySites) > 0 {
			c.faultCounts["runs_with_site_delays"]++
		}
		if p.Knobs.MemBytes > 0 {
			c.faultCounts["runs_with_small_memory_budget"]++
		}
		for ii, inc := range p.Incs {
			graceful := false
			ops := append([]plan.Op(nil), inc.Ops...)
			for _, op := range inc.Ops {
				for _, cl := range op.Par {
					ops = append(ops, cl...) // the operations of concurrent clients count as well
				}
			}
			for _, op := range ops {
				switch op.Kind {
				case "shutdown":
					graceful = true
				case "damage_file":
					// counted by the check itself (file_damage_while_running)
				case "alert_update":
					c.faultCounts["alert_edited_in_mid_run"]++
				case "mem_pressure":
					c.faultCounts["memory_pressure_eviction"]++
				case "advance":
					if op.DurMs >= 60_000 {
						c.faultCounts["clock_jump_ge_1min"]++
					}
				}
			}
			if ii < len(p.Incs)-1 && len(inc.Faults) == 0 && c.Check.ID != "C07" && c.Check.ID != "C20" {
				if graceful {
					c.faultCounts["graceful_restart"]++
				} else {
					c.faultCounts["process_kill_at_op_boundary"]++
				}
			}
		}
	}
	for _, ir := range allIncs {
		end := ir.End()
		if end == nil {
			continue
		}
		var fired map[string]int
		_ = json.Unmarshal(end["fired"], &fired)
		for k, v := range fired {
			c.faultCounts[k] += v
		}
		var fp string
		_ = json.Unmarshal(end["fingerprint"], &fp)
		if fp != "" {
			c.fingerprints[fp] = true
		}
	}
	for _, ir := range allIncs {
		var lo, hi int64
		for _, e := range ir.Entries {
			if e.SimMs <= 0 {
				continue // written outside the bubble (watchdog entries)
			}
			if lo == 0 || e.SimMs < lo {
				lo = e.SimMs
			}
			if e.SimMs > hi {
				hi = e.SimMs
			}
		}
		if hi > lo {
			c.simMs += hi - lo
		}
		if ir.Exit == 77 {
			c.faultCounts["process_crash"]++
		}
	}
}

func (c *Ctx) CrashState(digest string) {
	c.mu.Lock()
	c.crashStates[digest] = true
	c.mu.Unlock()
}

// Report records a violation found on plan p (already evaluated). Known findings are only counted.
func (c *Ctx) Report(p *plan.Plan, vs []Violation) {
	if len(vs) == 0 {
		return
	}
	c.mu.Lock()
	defer c.mu.Unlock()
	for _, v := range vs {
		if what, ok := c.matchKnown(v.Sig); ok {
			c.knownHit[what]++
			continue
		}
		if os.Getenv("VERIF_SURVEY") != "" {
			// survey mode (development aid): count signatures, do not stop or shrink
			if c.survey == nil {
				c.survey = map[string]int{}
				c.surveyEx = map[string]string{}
			}
			c.survey[v.Sig]++
			if _, ok := c.surveyEx[v.Sig]; !ok {
				c.surveyEx[v.Sig] = trimTo(v.Msg, 400)
			}
			continue
		}
		dup := false
		for _, f := range c.violations {
			if f.V.Sig == v.Sig {
				dup = true
			}
		}
		if !dup && len(c.violations) < 6 {
			c.violations = append(c.violations, foundViolation{V: v, Plan: p.Clone()})
		}
		if len(c.violations) >= 3 {
			c.stop = true
		}
		if len(c.violations) >= 6 {
			break
		}
	}
}

func (c *Ctx) matchKnown(sig string) (string, bool) {
	for pat, what := range c.known {
		if ok, _ := regexp.MatchString(pat, sig); ok {
			return what, true
		}
	}
	return "", false
}

// Parallel runs jobs on W workers until done, deadline or stop.
func (c *Ctx) Parallel(n int, workers int, job func(i int)) {
	if workers <= 0 {
		workers = runtime.NumCPU()
	}
	var wg sync.WaitGroup
	next := 0
	var nmu sync.Mutex
	for w := 0; w < workers; w++ {
		wg.Add(1)
		go func() {
			defer wg.Done()
			for {
				if c.Stopped() {
					return
				}
				nmu.Lock()
				i := next
				next++
				nmu.Unlock()
				if i >= n {
					return
				}
				job(i)
			}
		}()
	}
	wg.Wait()
}

// Explore is the generic exploration loop: n seeded plans, each executed and judged by the oracle.
// regressionPlans: minimised plans of violations found earlier by a thorough tier and repaired since
// (regress/<ID>-*.json, replay-file format). They are executed first in every tier: a seeded search may need
// thousands of schedules to meet the same interleaving again, the recorded one meets it at once (as long as the
// code around it keeps its shape).
func (c *Ctx) regressionPlans() []*plan.Plan {
	files, _ := filepath.Glob(filepath.Join(c.Root, "regress", c.Check.ID+"-*.json"))
	sort.Strings(files)
	var out []*plan.Plan
	for _, f := range files {
		b, err := os.ReadFile(f)
		if err != nil {
			continue
		}
		var rf replayFile
		if json.Unmarshal(b, &rf) == nil && rf.Plan != nil {
			rf.Plan.Note = "regression plan " + filepath.Base(f)
			out = append(out, rf.Plan)
		}
	}
	return out
}

func (c *Ctx) Explore(n int, gen func(r *rand.Rand, i int) *plan.Plan, account func(res *RunResult) (key string, nontrivial bool, sample any)) {
	reg := c.regressionPlans()
	c.Parallel(len(reg), 0, func(i int) {
		p := reg[i]
		res, err := c.Check.exec(p)
		if err != nil || harnessTrouble(res) != "" {
			return
		}
		defer res.Cleanup()
		vs := c.Check.Oracle(res)
		key, nt, sample := account(res)
		c.Account(res, key, nt, sample)
		c.Probe("regression_plans_run", 1)
		c.Report(p, vs)
	})
	c.Parallel(n, 0, func(i int) {
		r := c.Rng(uint64(i) + 1)
		p := gen(r, i)
		p.Property = c.Check.ID
		if p.Seed == 0 {
			p.Seed = c.Seed*1_000_003 + uint64(i)
		}
		res, err := c.Check.exec(p)
		if err != nil {
			c.Harness(fmt.Sprintf("run %d: %v", i, err))
			return
		}
		defer res.Cleanup()
		if h := harnessTrouble(res); h != "" {
			c.Harness(fmt.Sprintf("run %d: %s", i, h))
			return
		}
		vs := c.Check.Oracle(res)
		key, nt, sample := account(res)
		c.Account(res, key, nt, sample)
		c.Report(p, vs)
		if every := c.detEvery(); every > 0 && i%every == every-1 {
			c.determinismRecheck(p, res, vs)
		}
	})
}

// detEvery: every n-th executed plan is executed again in fresh processes with another real GOMAXPROCS
// (1 and 16 instead of 2) and must give the same journals, scheduler fingerprints and oracle verdicts.
func (c *Ctx) detEvery() int {
	if v := os.Getenv("VERIF_DETERMINISM_EVERY"); v != "" {
		n, _ := strconv.Atoi(v)
		return n
	}
	if c.Quick() {
		return 16
	}
	return 64
}

var addrRe = regexp.MustCompile(`0x[0-9a-f]{6,}`)

func journalDigest(res *RunResult) string {
	h := fnv.New64a()
	var walk func(r *RunResult)
	walk = func(r *RunResult) {
		for _, s := range r.Sub {
			walk(s)
		}
		for _, ir := range r.Incs {
			fmt.Fprintf(h, "exit=%d|", ir.Exit)
			for _, e := range ir.Entries {
				if e.Kind == "end" {
					continue // carries statistics; its fingerprint is compared separately
				}
				// heap addresses printed by task dumps are not part of the execution
				fmt.Fprintf(h, "%d|%s|%s|%s|%d|%d|%d|%s|%s\n", e.Inc, e.Idx, e.Kind, e.Phase, e.Seq, e.SimMs, e.FsOps, addrRe.ReplaceAllString(e.Err, "0x"), addrRe.ReplaceAll(e.Data, []byte("0x")))
			}
		}
	}
	walk(res)
	return fmt.Sprintf("%016x", h.Sum64())
}

func (c *Ctx) determinismRecheck(p *plan.Plan, first *RunResult, firstVs []Violation) {
	sigsOf := func(vs []Violation) string {
		var s []string
		for _, v := range vs {
			s = append(s, v.Sig)
		}
		sort.Strings(s)
		return strings.Join(s, "|")
	}
	want := journalDigest(first) + "/" + fingerprintOf(first) + "/" + sigsOf(firstVs)
	for _, procs := range []int{1, 16} {
		q := p.Clone()
		if worlds, ok := q.Params["worlds"].([]any); ok {
			for _, w := range worlds {
				if wm, ok := w.(map[string]any); ok {
					pm, _ := wm["params"].(map[string]any)
					if pm == nil {
						pm = map[string]any{}
						wm["params"] = pm
					}
					pm["child_gomaxprocs"] = procs
				}
			}
		}
		q.Params["child_gomaxprocs"] = procs
		res, err := c.Check.exec(q)
		if err != nil {
			continue
		}
		got := journalDigest(res) + "/" + fingerprintOf(res) + "/" + sigsOf(c.Check.Oracle(res))
		if d := os.Getenv("VERIF_DET_DUMP"); d != "" && got != want {
			_ = p.Save(filepath.Join(d, fmt.Sprintf("%d-plan.json", p.Seed)))
			dumpJournal(filepath.Join(d, fmt.Sprintf("%d-first", p.Seed)), first)
			dumpJournal(filepath.Join(d, fmt.Sprintf("%d-procs%d", p.Seed, procs)), res)
		}
		res.Cleanup()
		c.mu.Lock()
		c.detRechecks++
		if got != want {
			c.detMismatch++
			if len(c.detExamples) < 3 {
				c.detExamples = append(c.detExamples, fmt.Sprintf("seed %d GOMAXPROCS %d: %s vs %s", p.Seed, procs, want, got))
			}
		}
		c.mu.Unlock()
	}
}

// harnessTrouble: failures that are the harness's, never a verdict.
func harnessTrouble(res *RunResult) string {
	for _, s := range res.Sub {
		if h := harnessTrouble(s); h != "" {
			return h
		}
	}
	for i, ir := range res.Incs {
		switch ir.Abnormal() {
		case "wall-timeout":
			return fmt.Sprintf("inc %d: wall-clock watchdog fired; stderr: %s", i, trimTo(ir.Stderr, 400))
		case "harness":
			return fmt.Sprintf("inc %d: harness error: %s", i, trimTo(ir.Stderr, 400))
		}
		if strings.Contains(ir.Stderr, "SIM-HARNESS") {
			return fmt.Sprintf("inc %d: %s", i, trimTo(ir.Stderr, 400))
		}
	}
	return ""
}

// ---- CLI ---------------------------------------------------------------------------------------

func main() {
	var tier, replay, root string
	flag.StringVar(&nodeBin, "node", "", "simnode.test binary")
	flag.StringVar(&root, "root", "/verif", "verif root")
	flag.Parse()
	id := flag.Arg(0)
	sub := flag.NewFlagSet("check", flag.ExitOnError)
	sub.StringVar(&tier, "tier", "", "quick|thorough")
	sub.StringVar(&replay, "replay", "", "replay file")
	if flag.NArg() > 1 {
		_ = sub.Parse(flag.Args()[1:])
	}
	if tier == "" {
		tier = os.Getenv("VERIF_TIER")
	}
	if tier == "" {
		tier = "quick"
	}
	seed := uint64(1)
	if s := os.Getenv("VERIF_SEED"); s != "" {
		if v, err := strconv.ParseUint(s, 10, 64); err == nil {
			seed = v
		} else if v, err := strconv.ParseInt(s, 10, 64); err == nil {
			seed = uint64(v)
		}
	}
	ck := checks[id]
	if ck == nil {
		fmt.Fprintf(os.Stderr, "check: unknown property %q; known: %v\n", id, checkIDs())
		os.Exit(2)
	}
	if nodeBin == "" {
		fmt.Fprintln(os.Stderr, "check: --node required")
		os.Exit(2)
	}
	initScratch()
	defer cleanupScratch()
	fmt.Printf("check %s tier=%s VERIF_SEED=%d node=%s\n", id, tier, seed, nodeBin)
	if replay != "" {
		os.Exit(doReplay(ck, replay, root))
	}
	c := &Ctx{Check: ck, Tier: tier, Seed: seed, Root: root, Start: time.Now(),
		distinct: map[string]bool{}, faultCounts: map[string]int{}, probes: map[string]int{},
		fingerprints: map[string]bool{}, crashStates: map[string]bool{}, known: loadKnown(root, id), knownHit: map[string]int{}, extra: map[string]any{}}
	budget := 4 * time.Minute
	if tier == "thorough" {
		budget = 40 * time.Minute
	}
	if s := os.Getenv("VERIF_BUDGET_S"); s != "" {
		if v, err := strconv.Atoi(s); err == nil {
			budget = time.Duration(v) * time.Second
		}
	}
	c.Deadline = c.Start.Add(budget)
	ck.Run(c)
	code := c.finish()
	cleanupScratch()
	os.Exit(code)
}

func checkIDs() []string {
	var ids []string
	for k := range checks {
		ids = append(ids, k)
	}
	sort.Strings(ids)
	return ids
}

type knownFile struct {
	Findings []struct {
		Property  string `json:"property"`
		Signature string `json:"signature"` // regexp over violation signatures
		What      string `json:"what"`
	} `json:"findings"`
	Fixed []string `json:"fixed"`
}

func loadKnown(root, id string) map[string]string {
	out := map[string]string{}
	b, err := os.ReadFile(filepath.Join(root, "known_findings.json"))
	if err != nil {
		return out
	}
	var kf knownFile
	if err := json.Unmarshal(b, &kf); err != nil {
		fmt.Fprintf(os.Stderr, "check: known_findings.json: %v\n", err)
		os.Exit(2)
	}
	for _, f := range kf.Findings {
		if f.Property == id {
			out[f.Signature] = f.What
		}
	}
	return out
}

// finish shrinks and reports violations, writes evidence, returns the exit code.
func (c *Ctx) finish() int {
	wall := time.Since(c.Start).Seconds()
	code := 0
	var whats []string
	for w := range c.knownHit {
		whats = append(whats, w)
	}
	sort.Strings(whats)
	for _, w := range whats {
		fmt.Printf("KNOWN-FINDING: property=%s %s (hit %d times)\n", c.Check.ID, w, c.knownHit[w])
	}
	if len(c.survey) > 0 {
		var sigs []string
		for s := range c.survey {
			sigs = append(sigs, s)
		}
		sort.Strings(sigs)
		for _, s := range sigs {
			fmt.Printf("SURVEY %6d  %s\n          e.g. %s\n", c.survey[s], s, c.surveyEx[s])
		}
	}
	var vioOut []map[string]any
	for n, f := range c.violations {
		p := f.Plan
		min, confirmed := shrinkAndConfirm(c, p, f.V)
		path := filepath.Join(outRoot(c.Root), "replays", fmt.Sprintf("%s-seed%d-%d.json", c.Check.ID, c.Seed, n))
		_ = os.MkdirAll(filepath.Dir(path), 0o755)
		rf := replayFile{Property: c.Check.ID, Sig: f.V.Sig, Msg: f.V.Msg, Plan: min, Confirmed: confirmed, VerifSeed: c.Seed}
		var rb bytes.Buffer
		renc := json.NewEncoder(&rb)
		renc.SetEscapeHTML(false)
		renc.SetIndent("", " ")
		_ = renc.Encode(rf)
		_ = os.WriteFile(path, rb.Bytes(), 0o644)
		if !confirmed {
			// A violation that does not reproduce in fresh processes is a harness defect, not a verdict.
			fmt.Printf("NON-REPRODUCIBLE property=%s sig=%q replay=%s\n", c.Check.ID, f.V.Sig, path)
			if code == 0 {
				code = 2
			}
			continue
		}
		fmt.Printf("VIOLATION property=%s replay=%s\n", c.Check.ID, path)
		fmt.Printf("  signature: %s\n  detail: %s\n", f.V.Sig, trimTo(f.V.Msg, 600))
		vioOut = append(vioOut, map[string]any{"sig": f.V.Sig, "replay": path})
		code = 1
	}
	if len(c.harnessErr) > 0 {
		for i, h := range c.harnessErr {
			if i < 5 {
				fmt.Fprintf(os.Stderr, "HARNESS: %s\n", h)
			}
		}
		// harness trouble on more than a small fraction of runs invalidates the run
		if code == 0 && (c.evals == 0 || len(c.harnessErr)*10 > c.evals) {
			code = 2
		}
	}
	if c.detMismatch > 0 {
		// the same plan gave another execution under another real GOMAXPROCS: a defect of the simulator (a
		// source of nondeterminism outside its control), never a verdict about the property
		// Reported in the evidence (determinism_rechecks / determinism_mismatches / examples), never as a
		// verdict: every violation is re-executed in fresh processes before it is reported (a violation that
		// does not reproduce is printed as NON-REPRODUCIBLE), so a mismatch here cannot turn into a false alarm.
		fmt.Fprintf(os.Stderr, "DETERMINISM-NOTE: %d of %d re-executed plans differed in journal or scheduler fingerprint (see evidence)\n", c.detMismatch, c.detRechecks)
	}
	c.writeEvidence(wall, len(vioOut))
	fmt.Printf("check %s tier=%s: evaluations=%d distinct_nontrivial=%d violations=%d known=%d wall=%.1fs exit=%d\n",
		c.Check.ID, c.Tier, c.evals, len(c.distinct), len(vioOut), len(c.knownHit), wall, code)
	return code
}

func (c *Ctx) writeEvidence(wall float64, nvio int) {
	cov := map[string]any{
		"evaluations":         c.evals,
		"distinct_nontrivial": len(c.distinct),
		"rule":                c.Check.Rule,
		"samples":             c.samples,
		"runs_per_hour":       int(float64(c.evals) / wall * 3600),
		"sim_time_covered_s":  c.simMs / 1000,
		"fault_counts":        c.faultCounts,
		"distinct_interleavings": len(c.fingerprints),
		"probes":              c.probes,
		"components":          c.Check.Components,
		"determinism_rechecks": c.detRechecks,
		"determinism_mismatches": c.detMismatch,
		"determinism_examples":   c.detExamples,
		"harness_errors":      len(c.harnessErr),
		"known_findings_hit":  c.knownHit,
	}
	if len(c.crashStates) > 0 {
		cov["distinct_crash_states"] = len(c.crashStates)
	}
	var zero []string
	for k, v := range c.probes {
		if v == 0 {
			zero = append(zero, k)
		}
	}
	sort.Strings(zero)
	cov["probes_zero"] = zero
	if c.exhaustive != nil {
		cov["exhaustive"] = *c.exhaustive
	}
	for k, v := range c.extra {
		cov[k] = v
	}
	if c.samples == nil {
		cov["samples"] = []any{}
	}
	ev := map[string]any{
		"property_id": c.Check.ID,
		"tier":        c.Tier,
		"seed":        int64(c.Seed & 0x7fffffffffffffff),
		"level":       c.Check.Level,
		"coverage":    cov,
		"assumptions": c.Check.Assumptions,
		"wall_s":      wall,
		"violations":  nvio,
	}
	b, _ := json.MarshalIndent(ev, "", " ")
	dir := filepath.Join(outRoot(c.Root), "evidence")
	_ = os.MkdirAll(dir, 0o755)
	_ = os.WriteFile(filepath.Join(dir, c.Check.ID+".json"), b, 0o644)
}

// outRoot: where evidence and replay files go (VERIF_OUT overrides it for runs against scratch trees).
func outRoot(root string) string {
	if o := os.Getenv("VERIF_OUT"); o != "" {
		return o
	}
	return root
}

type replayFile struct {
	Property  string     `json:"property"`
	Sig       string     `json:"signature"`
	Msg       string     `json:"message"`
	VerifSeed uint64     `json:"verif_seed"`
	Confirmed bool       `json:"confirmed_in_fresh_processes"`
	Plan      *plan.Plan `json:"plan"`
}

func doReplay(ck *Check, path, root string) int {
	b, err := os.ReadFile(path)
	if err != nil {
		fmt.Fprintf(os.Stderr, "replay: %v\n", err)
		return 2
	}
	var rf replayFile
	if err := json.Unmarshal(b, &rf); err != nil || rf.Plan == nil {
		fmt.Fprintf(os.Stderr, "replay: bad file: %v\n", err)
		return 2
	}
	var sigs [2][]string
	var fps [2]string
	for k := 0; k < 2; k++ {
		res, err := ck.exec(rf.Plan)
		if err != nil {
			fmt.Fprintf(os.Stderr, "replay: %v\n", err)
			return 2
		}
		for _, v := range ck.Oracle(res) {
			sigs[k] = append(sigs[k], v.Sig)
			if k == 0 {
				fmt.Printf("  violation: %s\n    %s\n", v.Sig, trimTo(v.Msg, 800))
				if d := os.Getenv("VERIF_DET_DUMP"); d != "" {
					_ = os.MkdirAll(d, 0o755)
					f, err := os.OpenFile(filepath.Join(d, "violations.txt"), os.O_CREATE|os.O_APPEND|os.O_WRONLY, 0o644)
					if err == nil {
						fmt.Fprintf(f, "== %s\n%s\n", v.Sig, v.Msg)
						f.Close()
					}
				}
			}
		}
		fps[k] = fingerprintOf(res)
		if d := os.Getenv("VERIF_DET_DUMP"); d != "" {
			dumpJournal(filepath.Join(d, fmt.Sprintf("replay-%d.journal", k)), res)
		}
		res.Cleanup()
	}
	sort.Strings(sigs[0])
	sort.Strings(sigs[1])
	if strings.Join(sigs[0], "|") != strings.Join(sigs[1], "|") || fps[0] != fps[1] {
		fmt.Printf("NON-REPRODUCIBLE: two executions of the replay differ (sigs %v vs %v, fingerprints %s vs %s)\n", sigs[0], sigs[1], fps[0], fps[1])
		return 2
	}
	known := loadKnown(root, ck.ID)
	for _, s := range sigs[0] {
		if s == rf.Sig || rf.Sig == "" {
			isKnown := false
			for pat, what := range known {
				if ok, _ := regexp.MatchString(pat, s); ok {
					fmt.Printf("KNOWN-FINDING: property=%s %s\n", ck.ID, what)
					isKnown = true
				}
			}
			if isKnown {
				return 0
			}
			fmt.Printf("VIOLATION property=%s replay=%s\n", ck.ID, path)
			return 1
		}
	}
	var unknown []string
	for _, s := range sigs[0] {
		isKnown := false
		for pat, what := range known {
			if ok, _ := regexp.MatchString(pat, s); ok {
				fmt.Printf("KNOWN-FINDING: property=%s %s\n", ck.ID, what)
				isKnown = true
			}
		}
		if !isKnown {
			unknown = append(unknown, s)
		}
	}
	if len(sigs[0]) > 0 && len(unknown) == 0 {
		fmt.Printf("replay: recorded signature %q not reproduced; only known findings %v\n", rf.Sig, sigs[0])
		return 0
	}
	if len(sigs[0]) > 0 {
		fmt.Printf("replay produced other violations %v, recorded signature %q not reproduced\n", sigs[0], rf.Sig)
		fmt.Printf("VIOLATION property=%s replay=%s\n", ck.ID, path)
		return 1
	}
	fmt.Printf("replay: no violation (recorded signature %q)\n", rf.Sig)
	return 0
}

func fingerprintOf(res *RunResult) string {
	var parts []string
	for _, s := range res.Sub {
		parts = append(parts, fingerprintOf(s))
	}
	for _, ir := range res.Incs {
		end := ir.End()
		var fp string
		if end != nil {
			_ = json.Unmarshal(end["fingerprint"], &fp)
		}
		parts = append(parts, fmt.Sprintf("%s/%d/%d", fp, ir.Exit, len(ir.Entries)))
	}
	return strings.Join(parts, ",")
}

func dumpJournal(path string, res *RunResult) {
	_ = os.MkdirAll(filepath.Dir(path), 0o755)
	var sb strings.Builder
	all := append([]*IncResult(nil), res.Incs...)
	for _, sub := range res.Sub {
		all = append(all, sub.Incs...)
	}
	for _, ir := range all {
		for _, e := range ir.Entries {
			if e.Kind == "end" {
				continue
			}
			fmt.Fprintf(&sb, "%d|%s|%s|%s|%d|%d|%d|%s|%s\n", e.Inc, e.Idx, e.Kind, e.Phase, e.Seq, e.SimMs, e.FsOps, e.Err, e.Data)
		}
		if end := ir.End(); end != nil {
			var tr []string
			_ = json.Unmarshal(end["sched_trace"], &tr)
			_ = os.WriteFile(path+".trace", []byte(strings.Join(tr, "\n")), 0o644)
		}
	}
	_ = os.WriteFile(path, []byte(sb.String()), 0o644)
}
