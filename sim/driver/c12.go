package main

import (
	"encoding/json"
	"fmt"
	"math"
	"math/rand/v2"
	"sort"
	"strings"

	"simlens/plan"
)

// ---- C12: trace views vs the ingested span forest -----------------------------------------------------------
//
// Spans are exported over OTLP/HTTP (protobuf) to the real ingest route in seeded order and batching, at
// seeded instants of the fake clock; the node's own periodic RED job (every 5 simulated minutes) runs on that
// clock. The four views are read through the real query routes and compared with an independent computation
// over the generated forest.

type spanSpec struct {
	Trace  string `json:"t"`
	Span   string `json:"s"`
	Parent string `json:"p,omitempty"`
	Svc    string `json:"svc"`
	Name   string `json:"name"`
	Status int    `json:"st"`
	OffMs  int64  `json:"off_ms"`
	DurUs  int64  `json:"dur_us"`
}

type traceSpec struct {
	ID    string     `json:"id"`
	Kind  string     `json:"kind"` // ok | orphan | two_roots | cycle | dup_span | big
	Spans []spanSpec `json:"spans"`
	Win   int        `json:"win"`
}

var traceServices = []string{"front", "cart", "pay", "db", "auth"}

func hexID(r *rand.Rand, n int) string {
	const hexd = "0123456789abcdef"
	b := make([]byte, n)
	for i := range b {
		b[i] = hexd[r.IntN(16)]
	}
	if b[0] == '0' {
		b[0] = 'a'
	}
	return string(b)
}

func genTrace(r *rand.Rand, nsvc int, kind string, nspans int) traceSpec {
	t := traceSpec{ID: hexID(r, 32), Kind: kind}
	mk := func(parent *spanSpec) spanSpec {
		s := spanSpec{Trace: t.ID, Span: hexID(r, 16), Name: []string{"GET /", "POST /cart", "charge", "select", "login", "render"}[r.IntN(6)],
			Status: []int{1, 1, 1, 1, 0, 2}[r.IntN(6)], DurUs: int64(1+r.IntN(2000)) * 1000, OffMs: -int64(r.IntN(3000))}
		if r.IntN(4) == 0 {
			s.DurUs += int64(r.IntN(999)) // sub-millisecond parts
		}
		if parent == nil {
			s.Svc = traceServices[r.IntN(nsvc)]
		} else {
			s.Parent = parent.Span
			s.Svc = parent.Svc
			if r.IntN(5) < 2 {
				s.Svc = traceServices[r.IntN(nsvc)]
			}
		}
		return s
	}
	root := mk(nil)
	t.Spans = append(t.Spans, root)
	for len(t.Spans) < nspans {
		// parent among the existing spans, biased to recent ones (depth) or to the root (fan-out)
		var p *spanSpec
		switch r.IntN(3) {
		case 0:
			p = &t.Spans[0]
		case 1:
			p = &t.Spans[len(t.Spans)-1]
		default:
			p = &t.Spans[r.IntN(len(t.Spans))]
		}
		ps := *p
		t.Spans = append(t.Spans, mk(&ps))
	}
	switch kind {
	case "orphan":
		if len(t.Spans) > 1 {
			t.Spans[1+r.IntN(len(t.Spans)-1)].Parent = hexID(r, 16)
		} else {
			t.Kind = "ok"
		}
	case "two_roots":
		extra := mk(nil)
		t.Spans = append(t.Spans, extra)
	case "cycle":
		if len(t.Spans) >= 2 {
			t.Spans[0].Parent = t.Spans[1].Span // the root's parent is its own child: no root, a cycle
		} else {
			t.Kind = "ok"
		}
	case "dup_span":
		if len(t.Spans) >= 2 {
			d := t.Spans[len(t.Spans)-1]
			t.Spans = append(t.Spans, d) // the same span exported twice
		} else {
			t.Kind = "ok"
		}
	}
	return t
}

func genTracePlan(r *rand.Rand, quick bool) *plan.Plan {
	k := plan.Knobs{Sched: true, Procs: []int{1, 2, 4}[r.IntN(3)]}
	k.PreemptPermille = []int{0, 0, 10, 60}[r.IntN(4)]
	k.PQS = &boolF
	p := &plan.Plan{Knobs: k, Params: map[string]any{}}
	nsvc := 2 + r.IntN(4)
	// one run in three has a service whose resource carries no service.name attribute (stored as "")
	anon := r.IntN(3) == 0
	var traces []traceSpec
	nTraces := 2 + r.IntN(14)
	if r.IntN(8) == 0 {
		nTraces = 52 + r.IntN(70) // more than one page of the trace list
	}
	for i := 0; i < nTraces; i++ {
		kind := "ok"
		if r.IntN(5) == 0 {
			kind = []string{"orphan", "two_roots", "cycle", "dup_span"}[r.IntN(4)]
		}
		n := 1 + r.IntN(12)
		if nTraces > 50 {
			n = 1 + r.IntN(4)
		}
		traces = append(traces, genTrace(r, nsvc, kind, n))
	}
	if r.IntN(6) == 0 {
		// one trace larger than the result page of 1000 spans
		n := 1001 + r.IntN(1500)
		if quick {
			n = 1001 + r.IntN(300)
		}
		traces = append(traces, genTrace(r, nsvc, "ok", n))
		traces[len(traces)-1].Kind = "big"
	}
	for i := range traces {
		traces[i].Win = 1 + r.IntN(2)
	}
	if anon {
		victim := traceServices[r.IntN(nsvc)]
		for i := range traces {
			for j := range traces[i].Spans {
				if traces[i].Spans[j].Svc == victim {
					traces[i].Spans[j].Svc = ""
				}
			}
		}
	}
	p.Params["traces"] = traces
	inc := plan.Incarnation{Boot: "full", SchedSeed: r.Uint64()>>11 | 1}
	elapsed := int64(2000) // ops start 2 s after boot
	adv := func(ms int64) {
		inc.Ops = append(inc.Ops, plan.Op{Kind: "advance", DurMs: ms})
		elapsed += ms
	}
	advTo := func(ms int64) {
		if ms > elapsed {
			adv(ms - elapsed)
		}
	}
	advTo(72_000) // past the RED job's first run (boot + 60 s)
	for win := 1; win <= 2; win++ {
		var spans []spanSpec
		for _, t := range traces {
			if t.Win == win {
				spans = append(spans, t.Spans...)
			}
		}
		// order: as generated (parents first), reversed (children first) or shuffled
		switch r.IntN(3) {
		case 1:
			for i, j := 0, len(spans)-1; i < j; i, j = i+1, j-1 {
				spans[i], spans[j] = spans[j], spans[i]
			}
		case 2:
			r.Shuffle(len(spans), func(i, j int) { spans[i], spans[j] = spans[j], spans[i] })
		}
		nreq := 1 + r.IntN(5)
		for q := 0; q < nreq; q++ {
			lo, hi := len(spans)*q/nreq, len(spans)*(q+1)/nreq
			if hi > lo {
				if r.IntN(2) == 0 {
					// group the request's spans by service: few ResourceSpans entries with several spans each
					part := append([]spanSpec(nil), spans[lo:hi]...)
					sort.SliceStable(part, func(a, b int) bool { return part[a].Svc > part[b].Svc })
					copy(spans[lo:hi], part)
				}
				b, _ := json.Marshal(spans[lo:hi])
				inc.Ops = append(inc.Ops, plan.Op{Kind: "otlp_traces", Body: string(b)})
			}
			switch r.IntN(4) {
			case 0:
				inc.Ops = append(inc.Ops, plan.Op{Kind: "flush"})
			case 1:
				adv(int64(1000 + r.IntN(20000)))
			}
		}
		// past the RED run that covers this window (boot + 60 s + win x 300 s), with a margin
		advTo(int64(60_000+win*300_000) + 12_000)
	}
	inc.Ops = append(inc.Ops, plan.Op{Kind: "flush"})
	if r.IntN(3) == 0 {
		// the views must not depend on which process wrote the spans
		if r.IntN(2) == 0 {
			inc.Ops = append(inc.Ops, plan.Op{Kind: "shutdown"})
		}
		p.Incs = append(p.Incs, inc)
		inc = plan.Incarnation{Boot: "full", SchedSeed: r.Uint64()>>11 | 1}
	}
	win := map[string]any{"startEpoch": "now-1h", "endEpoch": "now", "queryLanguage": "Splunk QL"}
	post := func(path string, extra map[string]any, tag map[string]any) {
		body := map[string]any{}
		for k, v := range win {
			body[k] = v
		}
		for k, v := range extra {
			body[k] = v
		}
		args := map[string]any{"server": "query", "method": "POST", "path": path}
		for k, v := range tag {
			args[k] = v
		}
		inc.Ops = append(inc.Ops, plan.Op{Kind: "http", Body: jsonStr2(body), Args: args})
	}
	pages := len(traces)/50 + 2
	for pg := 1; pg <= pages; pg++ {
		post("/api/traces/search", map[string]any{"searchText": "*", "page": pg}, map[string]any{"view": "search", "page": pg})
	}
	post("/api/traces/count", map[string]any{"searchText": "*"}, map[string]any{"view": "count"})
	// span trees: every malformed trace, the big one and a sample of the others
	ng := 0
	for _, t := range traces {
		if t.Kind != "ok" || ng < 6 {
			post("/api/traces/ganttChart", map[string]any{"searchText": "trace_id=" + t.ID}, map[string]any{"view": "gantt", "trace": t.ID})
			if t.Kind == "ok" {
				ng++
			}
		}
	}
	post("/api/traces/generate-dep-graph", nil, map[string]any{"view": "depgraph"})
	inc.Ops = append(inc.Ops, plan.Op{Kind: "query", Index: "red-traces", Text: "*", Start: 1, End: 4102444800000, Size: 5000, Args: map[string]any{"view": "red"}})
	p.Incs = append(p.Incs, inc)
	return p
}

type ganttNode struct {
	SpanID   string       `json:"span_id"`
	Service  string       `json:"service_name"`
	Op       string       `json:"operation_name"`
	Status   string       `json:"status"`
	Children []*ganttNode `json:"children"`
}

var otlpStatus = []string{"STATUS_CODE_UNSET", "STATUS_CODE_OK", "STATUS_CODE_ERROR"}

func percentileLinear(sorted []float64, p int) float64 {
	if len(sorted) == 0 {
		return 0
	}
	k := float64(p) * float64(len(sorted)-1) / 100
	f, c := math.Floor(k), math.Ceil(k)
	if f == c {
		return sorted[int(f)]
	}
	return sorted[int(f)] + (sorted[int(c)]-sorted[int(f)])*(k-f)
}

func tracesOracle(prop string, res *RunResult) []Violation {
	var vs []Violation
	var traces []traceSpec
	if raw, err := json.Marshal(res.Plan.Params["traces"]); err == nil {
		_ = json.Unmarshal(raw, &traces)
	}
	bad := func(kind, format string, a ...any) {
		vs = append(vs, Violation{Sig: prop + ":" + kind, Msg: fmt.Sprintf(format, a...)})
	}
	byTrace := map[string]*traceSpec{}
	for i := range traces {
		byTrace[traces[i].ID] = &traces[i]
	}
	// arrival instants per span occurrence (from the journal), accepted requests only
	type arrived struct {
		spanSpec
		atMs    int64
		startNs int64
	}
	var all []arrived
	planJ := res.Plan.Clone()
	type httpAns struct {
		Status int    `json:"status"`
		Body   string `json:"body"`
	}
	searchSeen := map[string]int{}
	type listed struct {
		TraceID string `json:"trace_id"`
		Start   int64  `json:"start_time"`
		End     int64  `json:"end_time"`
		Count   int    `json:"span_count"`
		Errors  int    `json:"span_errors_count"`
		Service string `json:"service_name"`
		Op      string `json:"operation_name"`
	}
	var listedAll []listed
	searchOK := true
	pagesSeen := 0
	for ii, inc := range planJ.Incs {
		if ii >= len(res.Incs) {
			break
		}
		ir := res.Incs[ii]
		if ab := ir.Abnormal(); ab != "" {
			if ab == "harness" || ab == "wall-timeout" {
				return nil
			}
			site := ir.PanicSite()
			if ab == "hang" {
				site = ir.HangKind()
			}
			return append(vs, Violation{Sig: prop + ":node-" + ab + ":" + site, Msg: trimTo(ir.Stderr, 1500)})
		}
		for oi := range inc.Ops {
			op := &inc.Ops[oi]
			e := ir.Get(fmt.Sprint(oi))
			if e == nil {
				break
			}
			switch op.Kind {
			case "otlp_traces":
				var a struct {
					Status int   `json:"status"`
					NowNs  int64 `json:"now_ns"`
				}
				_ = json.Unmarshal(e.Data, &a)
				if e.Err != "" || a.Status != 200 {
					bad("export-rejected", "inc %d op %d: status %d err %s", ii, oi, a.Status, e.Err)
					continue
				}
				var specs []spanSpec
				_ = json.Unmarshal([]byte(op.Body), &specs)
				for _, s := range specs {
					all = append(all, arrived{s, a.NowNs / 1e6, a.NowNs + s.OffMs*1e6})
				}
			}
		}
	}
	// reference numbers per trace
	type tref struct {
		n, errs int
		roots   []arrived
		spans   []arrived
	}
	refs := map[string]*tref{}
	for _, s := range all {
		t := refs[s.Trace]
		if t == nil {
			t = &tref{}
			refs[s.Trace] = t
		}
		t.n++
		if s.Status == 2 {
			t.errs++
		}
		if s.Parent == "" {
			t.roots = append(t.roots, s)
		}
		t.spans = append(t.spans, s)
	}
	// well formed = generated as such AND still so in what this run actually exported (a shrunk plan may have
	// lost the request that carried a parent): one root, every parent present, no span id twice, no cycle
	wfMemo := map[string]bool{}
	wellFormed := func(id string) bool {
		if v, ok := wfMemo[id]; ok {
			return v
		}
		ts := byTrace[id]
		ok := ts != nil && (ts.Kind == "ok" || ts.Kind == "big")
		if ref := refs[id]; ok && ref != nil {
			par := map[string]string{}
			for _, sp := range ref.spans {
				if _, dup := par[sp.Span]; dup {
					ok = false
				}
				par[sp.Span] = sp.Parent
			}
			if len(ref.roots) != 1 {
				ok = false
			}
			for _, sp := range ref.spans {
				if sp.Parent != "" {
					if _, have := par[sp.Parent]; !have {
						ok = false
					}
				}
			}
			if ok {
				// every span reaches the root
				state := map[string]int{} // 1 = on the current path, 2 = reaches the root
				for start := range par {
					var path []string
					cur := start
					for cur != "" && state[cur] == 0 {
						state[cur] = 1
						path = append(path, cur)
						cur = par[cur]
					}
					if cur != "" && state[cur] == 1 {
						ok = false
						break
					}
					for _, x := range path {
						state[x] = 2
					}
				}
			}
		}
		wfMemo[id] = ok
		return ok
	}
	hasDup := false
	for _, t := range traces {
		if t.Kind == "dup_span" {
			hasDup = true
		}
	}
	// second pass: the views
	for ii, inc := range planJ.Incs {
		if ii >= len(res.Incs) {
			break
		}
		ir := res.Incs[ii]
		for oi := range inc.Ops {
			op := &inc.Ops[oi]
			e := ir.Get(fmt.Sprint(oi))
			if e == nil {
				break
			}
			view, _ := op.Args["view"].(string)
			if view == "" {
				continue
			}
			where := fmt.Sprintf("inc %d op %d %s", ii, oi, view)
			if e.Err != "" {
				bad(view+":request-failed", "%s: %s", where, e.Err)
				continue
			}
			var ans httpAns
			if op.Kind == "http" {
				_ = json.Unmarshal(e.Data, &ans)
			}
			switch view {
			case "search":
				pagesSeen++
				if ans.Status != 200 {
					bad("search:error-status", "%s: status %d %s", where, ans.Status, trimTo(ans.Body, 300))
					searchOK = false
					continue
				}
				var l struct {
					Traces []listed `json:"traces"`
				}
				if err := json.Unmarshal([]byte(ans.Body), &l); err != nil {
					bad("search:unreadable", "%s: %v", where, err)
					searchOK = false
					continue
				}
				for _, t := range l.Traces {
					searchSeen[t.TraceID]++
					listedAll = append(listedAll, t)
				}
			case "count":
				want := len(refs)
				if strings.TrimSpace(ans.Body) != fmt.Sprint(want) {
					bad("count:differs", "%s: %d distinct trace ids were ingested, count answers %q", where, want, trimTo(ans.Body, 50))
				}
			case "gantt":
				id, _ := op.Args["trace"].(string)
				ref := refs[id]
				if ref == nil {
					continue
				}
				if ans.Status != 200 {
					if wellFormed(id) {
						bad("gantt:well-formed-trace-refused", "%s: trace %s (%d spans): status %d %s", where, id, ref.n, ans.Status, trimTo(ans.Body, 300))
					}
					continue // malformed: an error is an accepted answer
				}
				var root ganttNode
				if err := json.Unmarshal([]byte(ans.Body), &root); err != nil {
					bad("gantt:unreadable", "%s: %v: %s", where, err, trimTo(ans.Body, 200))
					continue
				}
				parentOf := map[string]string{}
				svcOf := map[string]string{}
				for _, s := range ref.spans {
					parentOf[s.Span] = s.Parent
					svcOf[s.Span] = s.Svc
				}
				seen := map[string]int{}
				var walk func(n *ganttNode, parent string, depth int)
				walk = func(n *ganttNode, parent string, depth int) {
					if n == nil || depth > 100000 {
						return
					}
					seen[n.SpanID]++
					if _, ok := parentOf[n.SpanID]; !ok {
						bad("gantt:foreign-span", "%s: trace %s shows span %s which is not one of its spans", where, id, n.SpanID)
					} else {
						if parent != "" && parentOf[n.SpanID] != parent {
							bad("gantt:wrong-parent", "%s: trace %s: span %s is shown beneath %s, its parent is %s", where, id, n.SpanID, parent, parentOf[n.SpanID])
						}
						if svcOf[n.SpanID] != n.Service {
							bad("gantt:wrong-service", "%s: trace %s span %s service %q, want %q", where, id, n.SpanID, n.Service, svcOf[n.SpanID])
						}
					}
					for _, c := range n.Children {
						walk(c, n.SpanID, depth+1)
					}
				}
				walk(&root, "", 0)
				for s, n := range seen {
					if n > 1 {
						bad("gantt:span-shown-twice", "%s: trace %s: span %s appears %d times", where, id, s, n)
					}
				}
				if wellFormed(id) {
					missing := 0
					for s := range parentOf {
						if seen[s] == 0 {
							missing++
						}
					}
					if missing > 0 {
						kind := "gantt:spans-missing"
						if ref.n > 1000 {
							kind = "gantt:spans-missing-beyond-first-page"
						}
						bad(kind, "%s: trace %s has %d spans, the tree shows %d (%d missing)", where, id, len(parentOf), len(seen), missing)
					}
				}
			case "depgraph", "depagg":
				if ans.Status != 200 {
					bad(view+":error-status", "%s: status %d %s", where, ans.Status, trimTo(ans.Body, 200))
					continue
				}
				got := map[string]map[string]int{}
				onlyHour := 0
				if view == "depagg" {
					// the aggregated graph of the stored hourly matrices: service rows next to "_index" and "timestamp"
					var rawm map[string]json.RawMessage
					// (a window without stored matrices is answered with a plain-text notice: an empty graph)
					_ = json.Unmarshal([]byte(ans.Body), &rawm)
					for k, v := range rawm {
						if k == "_index" || k == "timestamp" {
							continue
						}
						row := map[string]int{}
						if err := json.Unmarshal(v, &row); err != nil {
							bad("depagg:unreadable", "%s: row %s: %v: %s", where, k, err, trimTo(string(v), 200))
							continue
						}
						got[k] = row
					}
					if v, ok := op.Args["only_hour"].(float64); ok {
						onlyHour = int(v)
					}
				} else if err := json.Unmarshal([]byte(ans.Body), &got); err != nil {
					bad("depgraph:unreadable", "%s: %v: %s", where, err, trimTo(ans.Body, 200))
					continue
				}
				if hasDup {
					continue // a span id exported twice: pair counts are not defined
				}
				svcOf := map[string]string{}
				for _, s := range all {
					svcOf[s.Span] = s.Svc
				}
				want := map[string]map[string]int{}
				for _, s := range all {
					if s.Parent == "" {
						continue
					}
					if t := byTrace[s.Trace]; onlyHour > 0 && (t == nil || t.Win != onlyHour) {
						continue
					}
					ps, ok := svcOf[s.Parent]
					if !ok || ps == s.Svc {
						continue
					}
					if want[ps] == nil {
						want[ps] = map[string]int{}
					}
					want[ps][s.Svc]++
				}
				wj, gj := jsonStr2(want), jsonStr2(got)
				if wj != gj {
					kind := view + ":differs"
					if view == "depgraph" && len(all) > 100 {
						kind = "depgraph:differs-more-spans-than-one-page"
					}
					bad(kind, "%s: %d spans: want %s got %s", where, len(all), trimTo(wj, 300), trimTo(gj, 300))
				}
			case "red":
				var q struct {
					Records []struct {
						Service   string  `json:"service"`
						Rate      float64 `json:"rate"`
						ErrorRate float64 `json:"error_rate"`
						P50       float64 `json:"p50"`
						P90       float64 `json:"p90"`
						P95       float64 `json:"p95"`
						P99       float64 `json:"p99"`
						Ts        int64   `json:"timestamp"`
					} `json:"records"`
				}
				if err := json.Unmarshal(e.Data, &q); err != nil {
					bad("red:unreadable", "%s: %v", where, err)
					continue
				}
				if hasDup {
					continue
				}
				// runs = distinct row instants; each run covers the spans that arrived in the 5 minutes before it
				runs := map[int64]bool{}
				for _, r := range q.Records {
					runs[r.Ts] = true
				}
				covered := map[int]int{} // span occurrence index -> number of runs whose window holds it
				type key struct {
					ts  int64
					svc string
				}
				want := map[key][]arrived{}
				for ts := range runs {
					svcOf := map[string]string{}
					var in []int
					for i, s := range all {
						if s.atMs > ts-300_000 && s.atMs <= ts {
							svcOf[s.Span] = s.Svc
							in = append(in, i)
						}
					}
					for _, i := range in {
						s := all[i]
						covered[i]++
						if s.Parent != "" {
							if ps, ok := svcOf[s.Parent]; ok && ps == s.Svc {
								continue
							}
						}
						want[key{ts, s.Svc}] = append(want[key{ts, s.Svc}], s)
					}
				}
				// a run is visible through the rows it wrote only: a run whose window held no entry span (a span
				// without a parent, or whose parent is unknown or belongs to another service) wrote none. So an
				// uncovered span counts only if it is an entry span itself.
				svcAll := map[string]string{}
				for _, s := range all {
					svcAll[s.Span] = s.Svc
				}
				isEntry := func(s arrived) bool {
					if s.Parent == "" {
						return true
					}
					ps, ok := svcAll[s.Parent]
					return !ok || ps != s.Svc
				}
				anyEntry := false
				for _, s := range all {
					if isEntry(s) {
						anyEntry = true
					}
				}
				for i, s := range all {
					if covered[i] == 0 && e.SimMs < s.atMs+310_000 {
						continue // the run that covers it is not due yet
					}
					if covered[i] == 0 && !isEntry(s) {
						continue
					}
					if covered[i] != 1 {
						bad("red:span-not-covered-by-exactly-one-run", "%s: span %s of trace %s (arrived %d) lies in the window of %d RED runs (runs at %v)", where, s.Span, s.Trace, s.atMs, covered[i], keysOfRuns(runs))
						break
					}
				}
				gotRows := map[key]int{}
				for _, r := range q.Records {
					k := key{r.Ts, r.Service}
					gotRows[k]++
					ws := want[k]
					if len(ws) == 0 {
						bad("red:row-for-service-without-entry-spans", "%s: row %+v", where, r)
						continue
					}
					errs := 0
					var durs []float64
					for _, s := range ws {
						if s.Status == 2 {
							errs++
						}
						durs = append(durs, float64((s.DurUs*1000)/1_000_000))
					}
					sort.Float64s(durs)
					n := float64(len(ws))
					if math.Abs(r.Rate-n/300) > 1e-9 {
						bad("red:rate-differs", "%s: service %s run %d: %d entry spans in the 5-minute window: rate per second want %v got %v", where, r.Service, r.Ts, len(ws), n/300, r.Rate)
					}
					if math.Abs(r.ErrorRate-100*float64(errs)/n) > 1e-9 {
						bad("red:error-rate-differs", "%s: service %s run %d: %d of %d entry spans failed: want %v%% got %v%%", where, r.Service, r.Ts, errs, len(ws), 100*float64(errs)/n, r.ErrorRate)
					}
					for _, pc := range []struct {
						p   int
						got float64
					}{{50, r.P50}, {90, r.P90}, {95, r.P95}, {99, r.P99}} {
						if w := percentileLinear(durs, pc.p); math.Abs(w-pc.got) > 1e-6 {
							bad("red:percentile-differs", "%s: service %s run %d: p%d of %v ms: want %v got %v", where, r.Service, r.Ts, pc.p, durs, w, pc.got)
							break
						}
					}
				}
				for k, ws := range want {
					if gotRows[k] != 1 {
						bad("red:rows-per-service-and-run", "%s: service %s run %d (%d entry spans): %d rows", where, k.svc, k.ts, len(ws), gotRows[k])
					}
				}
				if len(all) > 0 && anyEntry && len(runs) == 0 {
					bad("red:no-run", "%s: spans were ingested and the clock ran 10 minutes, no RED row exists", where)
				}
			}
		}
	}
	// the trace list over all pages
	if searchOK && pagesSeen > 0 {
		for id, n := range searchSeen {
			if n > 1 {
				bad("search:trace-listed-twice", "trace %s is listed %d times over the pages", id, n)
			}
			if refs[id] == nil {
				bad("search:unknown-trace", "trace %s was never ingested", id)
			}
		}
		for _, l := range listedAll {
			ref := refs[l.TraceID]
			if ref == nil {
				continue
			}
			if l.Count != ref.n || l.Errors != ref.errs {
				bad("search:counts-differ", "trace %s (%s): %d spans / %d errors ingested, listed with %d / %d", l.TraceID, byTrace[l.TraceID].Kind, ref.n, ref.errs, l.Count, l.Errors)
			}
			if wellFormed(l.TraceID) && len(ref.roots) == 1 {
				rt := ref.roots[0]
				// times pass through float64 in the aggregation (ns since 1970 exceed 2^53): compared to 1 us
				if l.Service != rt.Svc || l.Op != rt.Name || absI64(l.Start-rt.startNs) > 1000 || absI64(l.End-(rt.startNs+rt.DurUs*1000)) > 1000 {
					bad("search:root-attributes-differ", "trace %s: root %s/%s [%d,%d], listed %s/%s [%d,%d]", l.TraceID, rt.Svc, rt.Name, rt.startNs, rt.startNs+rt.DurUs*1000, l.Service, l.Op, l.Start, l.End)
				}
			}
		}
		missing, total := 0, 0
		ex := ""
		for id, ref := range refs {
			if wellFormed(id) && len(ref.roots) == 1 {
				total++
				if searchSeen[id] == 0 {
					missing++
					ex = id
				}
			}
		}
		if missing > 0 {
			kind := "search:trace-missing"
			if len(refs) > 50 {
				kind = "search:trace-missing-with-more-than-one-page"
			}
			bad(kind, "%d of %d well-formed traces are on no page (e.g. %s); %d trace ids in all", missing, total, ex, len(refs))
		}
	}
	return vs
}

func keysOfRuns(m map[int64]bool) []int64 {
	var out []int64
	for k := range m {
		out = append(out, k)
	}
	sort.Slice(out, func(i, j int) bool { return out[i] < out[j] })
	return out
}

func init() {
	register(&Check{
		ID:    "C12",
		Level: "exploration",
		// the reference computation assumes every exported span is searchable when a view or the RED job reads:
		// that rests on the plan's flushes and clock advances, which a shrunk plan therefore keeps
		Pinned: func(op *plan.Op) bool { return op.Kind == "flush" || op.Kind == "advance" },
		Rule: "each case is one seeded span forest (2-120 traces, 2-5 services, depth/fan-out by seeded parent choice, statuses, sub-millisecond durations, parent/child clock skew; a fifth of the traces malformed: missing parent, two roots, parent cycle, span exported twice; one case in six holds a trace of 1001-2500 spans) exported over OTLP/HTTP protobuf to the real ingest route in seeded order (parents first, children first, shuffled) and batching (1-5 requests per 5-minute window, flushes and clock advances between them), two arrival windows around the node's own RED job on the fake clock, optional kill/graceful restart before reading; one case in forty instead runs the node's hourly dependency-graph job on the fake clock (spans in two different hours, the job stores one matrix per hour, then the aggregated graph /api/traces/dependencies over both hours and over the last hour alone). Oracle: trace list over all pages, trace count, span tree per trace, dependency matrix and RED rows equal an independent computation; malformed traces may be refused or partial but never show foreign spans, wrong parents, duplicates, hangs or crashes. distinct = forest shape digests; non-trivial = forest with a malformed or paged element, or more than one request per window",
		Run: func(c *Ctx) {
			n := 48
			if !c.Quick() {
				n = 3000
			}
			c.Explore(n, func(r *rand.Rand, i int) *plan.Plan {
				// the hourly dependency-graph job: one history of the quick tier, one in forty of the thorough tier
				// (two simulated hours each)
				if i%40 == 7 {
					return genTraceHourlyPlan(r)
				}
				return genTracePlan(r, c.Quick())
			}, func(res *RunResult) (string, bool, any) {
				var traces []traceSpec
				if raw, err := json.Marshal(res.Plan.Params["traces"]); err == nil {
					_ = json.Unmarshal(raw, &traces)
				}
				kinds := map[string]int{}
				nspans := 0
				for _, t := range traces {
					kinds[t.Kind]++
					nspans += len(t.Spans)
				}
				nreq := 0
				for _, inc := range res.Plan.Incs {
					for _, op := range inc.Ops {
						if op.Kind == "otlp_traces" {
							nreq++
						}
					}
				}
				for k, v := range kinds {
					c.Probe("traces_"+k, v)
				}
				c.Probe("spans", nspans)
				c.Probe("export_requests", nreq)
				if len(traces) > 50 {
					c.Probe("more_than_one_trace_page", 1)
				}
				c.mu.Lock()
				c.faultCounts["restart"] += len(res.Plan.Incs) - 1
				c.mu.Unlock()
				kb, _ := json.Marshal(kinds)
				return fmt.Sprintf("%d|%d|%s|%d", len(traces), nspans, kb, nreq), len(kinds) > 1 || len(traces) > 50 || nreq > 2,
					map[string]any{"traces": len(traces), "spans": nspans, "kinds": kinds, "export_requests": nreq, "incarnations": len(res.Plan.Incs)}
			})
		},
		Oracle: func(res *RunResult) []Violation { return tracesOracle("C12", res) },
		Assumptions: []string{
			"span start/end times lie within 3 s before their export instant (as a tracer exports them); the views' window is the last simulated hour",
			"all spans of one trace are exported between the same two runs of the RED job (entry-span detection looks at one 5-minute window)",
			"entry span = no parent, parent absent from the window, or parent in another service; percentiles by linear interpolation over whole milliseconds; rate = entry spans per second of the 5-minute window",
			"dependency pairs and RED rows are not compared when the forest holds a span id exported twice",
		},
		Components: map[string]string{
			"OTLP ingest route, segment writer, query engine, trace handlers, RED job (MonitorSpansHealth)": "real",
			"clock": "simulated (synctest bubble)", "scheduler": "simulated (simrt baton scheduler)", "disk": "simulated seam over real files",
			"hourly DependencyGraphThread": "real, reached in the hourly family (one case in forty: two simulated hours); the on-demand generate-dep-graph route is driven in all other cases",
		},
	})
}
