package main

import (
	"encoding/json"
	"fmt"
	"io/fs"
	"math/rand/v2"
	"os"
	"path/filepath"
	"sort"
	"strconv"
	"strings"

	"simlens/plan"
)

// genDamageNode: incarnation 0 builds a small node (two rotated log segments with several blocks each, one
// index per segment pair so that "other segments" exist, and one rotated metrics segment) and shuts down
// gracefully; incarnation 1 boots and runs a fixed query suite.
func genDamageNode(r *rand.Rand) *plan.Plan {
	// one search worker on half of the nodes: then one column reader visits the blocks of a segment one after the
	// other and what it decoded for the previous block is still in its buffers when a damaged block follows
	k := plan.Knobs{Sched: true, Procs: []int{1, 2}[r.IntN(2)], PQS: &boolF, Aggs: &boolF}
	k.CardLimit = []int{3, 0}[r.IntN(2)]
	p := &plan.Plan{Knobs: k, Params: map[string]any{}}
	inc := plan.Incarnation{Boot: "full", SchedSeed: r.Uint64()>>11 | 1}
	for _, ix := range []string{"dmA", "dmB"} {
		g := NewEvGen(r, "layout", ix+"-", 4)
		for s := 0; s < 2; s++ {
			for b := 0; b < 2+r.IntN(2); b++ {
				var evs []json.RawMessage
				for i := 0; i < 6+r.IntN(10); i++ {
					evs = append(evs, g.Next(simEpochMs+int64(r.IntN(3_600_000))).Raw)
				}
				inc.Ops = append(inc.Ops, plan.Op{Kind: "ingest", Index: ix, Events: evs}, plan.Op{Kind: "flush"})
			}
			inc.Ops = append(inc.Ops, plan.Op{Kind: "rotate"})
		}
	}
	var dps []json.RawMessage
	t0 := uint32(simEpochMs/1000) + 100
	for s := 0; s < 3; s++ {
		for i := 0; i < 8; i++ {
			dps = append(dps, DP{Metric: "dmm", Tags: map[string]string{"host": fmt.Sprintf("h%d", s)}, TS: t0 + uint32(i)*10, V: float64(s*100 + i)}.Raw())
		}
	}
	inc.Ops = append(inc.Ops, plan.Op{Kind: "mput", Events: dps}, plan.Op{Kind: "advance", DurMs: 61_000}, plan.Op{Kind: "shutdown"})
	inc1 := plan.Incarnation{Boot: "full", SchedSeed: r.Uint64()>>11 | 1}
	for _, ix := range []string{"dmA", "dmB"} {
		inc1.Ops = append(inc1.Ops,
			plan.Op{Kind: "query", Index: ix, Text: "*", Start: qStart, End: qEnd, Size: 500, Args: map[string]any{"includeNulls": true}},
			plan.Op{Kind: "query", Index: ix, Text: "level=error OR code>=500", Start: qStart, End: qEnd, Size: 500, Args: map[string]any{"includeNulls": true}},
			plan.Op{Kind: "query", Index: ix, Text: "* | stats count, sum(code), max(lat) by level", Start: qStart, End: qEnd},
			plan.Op{Kind: "query", Index: ix, Text: "* | stats count, sum(code)", Start: qStart, End: qEnd},
			// a time range that cuts through every block: the per-record time filter reads the timestamp column
			plan.Op{Kind: "query", Index: ix, Text: "*", Start: simEpochMs + 1_200_000, End: simEpochMs + 2_400_000, Size: 500, Args: map[string]any{"includeNulls": true}},
			plan.Op{Kind: "query", Index: ix, Text: "* | timechart span=10m count", Start: qStart, End: qEnd},
		)
	}
	inc1.Ops = append(inc1.Ops, plan.Op{Kind: "mquery", Text: "dmm", Start: int64(t0) - 50, End: int64(t0) + 200, Step: 1})
	p.Incs = []plan.Incarnation{inc, inc1}
	return p
}

// answerOf canonicalises one suite answer: kind, error flag, and a map from row key to row content.
func answerOf(e *plan.Entry, kind string) (errText string, rows map[string]string) {
	rows = map[string]string{}
	if e == nil {
		return "no answer", rows
	}
	if e.Err != "" {
		return "error: " + trimTo(e.Err, 200), rows
	}
	if kind == "mquery" {
		q, err := decodeMQ(e)
		if err != nil {
			return "undecodable", rows
		}
		if len(q.Errors) > 0 {
			errText = "errors: " + trimTo(strings.Join(q.Errors, "; "), 200)
		}
		for sid, pts := range q.Series {
			for _, pt := range pts {
				rows[fmt.Sprintf("%s@%d", sid, pt.T)] = pt.Bits
			}
		}
		return
	}
	q, err := decodeQ(e)
	if err != nil {
		return "undecodable", rows
	}
	if len(q.Errors) > 0 {
		errText = "errors: " + trimTo(strings.Join(q.Errors, "; "), 200)
	}
	for _, rec := range q.Records {
		vid, _ := rec["vid"].(string)
		rows["rec:"+vid] = canonRecord(rec)
	}
	for _, b := range q.Measure {
		ks := make([]string, 0, len(b.M))
		for mk := range b.M {
			ks = append(ks, mk)
		}
		sort.Strings(ks)
		var sb strings.Builder
		for _, mk := range ks {
			fmt.Fprintf(&sb, "%s=%v;", mk, b.M[mk])
		}
		rows["grp:"+strings.Join(b.G, "\x00")] = sb.String()
	}
	return
}

func damageOracle(prop string, res *RunResult) []Violation {
	var vs []Violation
	if len(res.Incs) < 2 {
		return nil
	}
	raw, hasClean := res.Plan.Params["clean"]
	if !hasClean {
		// the undamaged run: only sanity (no crash)
		for ii, ir := range res.Incs {
			if ab := ir.Abnormal(); ab != "" && ab != "harness" && ab != "wall-timeout" {
				vs = append(vs, Violation{Sig: prop + ":undamaged-node-" + ab + ":" + ir.PanicSite(), Msg: fmt.Sprintf("inc %d: %s", ii, trimTo(ir.Stderr, 1200))})
			}
		}
		return vs
	}
	cb, _ := json.Marshal(raw)
	clean := map[string]map[string]string{}
	_ = json.Unmarshal(cb, &clean)
	db, _ := json.Marshal(res.Plan.Params["damage"])
	var ds []Damage
	_ = json.Unmarshal(db, &ds)
	fk, target := "none", ""
	if len(ds) > 0 {
		fk = fileKindDamage(ds[0].File)
		target = ds[0].File
	}
	desc := fmt.Sprintf("damage %s", db)
	ir := res.Incs[1]
	if ab := ir.Abnormal(); ab != "" && ab != "harness" && ab != "wall-timeout" {
		site := ir.PanicSite()
		if ab == "hang" {
			site = ir.HangKind()
		}
		return []Violation{{Sig: fmt.Sprintf("%s:%s:node-%s:%s", prop, fk, ab, site), Msg: desc + ": " + trimTo(ir.Stderr, 1500)}}
	}
	if b := ir.Get("boot"); b == nil || b.Err != "" {
		msg := "no boot entry"
		if b != nil {
			msg = b.Err
		}
		return []Violation{{Sig: fmt.Sprintf("%s:%s:startup-fails", prop, fk), Msg: desc + ": " + msg}}
	}
	for oi := range res.Plan.Incs[1].Ops {
		op := &res.Plan.Incs[1].Ops[oi]
		idx := fmt.Sprint(oi)
		want, ok := clean[idx]
		if !ok {
			continue
		}
		errText, got := answerOf(ir.Get(idx), op.Kind)
		// does this query touch the damaged segment's index?
		touches := target == "" || strings.Contains(target, "/"+op.Index+"/") || (op.Kind == "mquery" && (strings.Contains(target, "/ts/") || strings.Contains(target, "/tth/"))) || !strings.Contains(target, "/final/")
		qdesc := fmt.Sprintf("%s: query %d %q on %s", desc, oi, op.Text, op.Index)
		// 1. nothing invented, nothing altered - with or without a reported error
		for k, v := range got {
			w, present := want[k]
			if !present {
				cls := "invented-row"
				if k == "rec:" {
					cls = "columns-silently-missing" // a record that lost its id column
					if errText != "" {
						continue
					}
				}
				vs = append(vs, Violation{Sig: fmt.Sprintf("%s:%s:%s", prop, fk, cls), Msg: fmt.Sprintf("%s: row %q = %s does not exist in the undamaged answer", qdesc, k, trimTo(v, 200))})
				break
			}
			if w != v {
				// fields of the row: a subset of the original fields with equal values = columns went missing;
				// a field with another value = altered data served
				wf, gf := splitFields(w), splitFields(v)
				altered := ""
				if !strings.Contains(w, "=") {
					altered = fmt.Sprintf("%s (undamaged %s)", trimTo(v, 60), trimTo(w, 60)) // a bare value (metric sample bits)
				}
				for fk2, gv := range gf {
					if wv, ok := wf[fk2]; !ok || wv != gv {
						altered = fmt.Sprintf("%s=%s (undamaged %s)", fk2, trimTo(gv, 60), trimTo(wv, 60))
					}
				}
				if altered != "" {
					cls := "altered-values-served"
					if strings.HasPrefix(k, "grp:") {
						// lower = every differing measure is a number not above the undamaged one (what rows that went
						// missing explain); altered = anything else (a measure grew or changed text)
						cls = "aggregate-lower-without-error"
						for fk2, gv := range gf {
							wv, ok := wf[fk2]
							if ok && wv == gv {
								continue
							}
							g, e1 := strconv.ParseFloat(gv, 64)
							w2, e2 := strconv.ParseFloat(wv, 64)
							if !ok || e1 != nil || e2 != nil || g > w2 {
								cls = "aggregate-altered-without-error"
							}
						}
						if errText != "" && cls == "aggregate-lower-without-error" {
							continue // partial aggregate with a reported error
						}
					}
					vs = append(vs, Violation{Sig: fmt.Sprintf("%s:%s:%s", prop, fk, cls), Msg: fmt.Sprintf("%s: row %q: %s", qdesc, k, altered)})
					break
				}
				if errText == "" {
					vs = append(vs, Violation{Sig: fmt.Sprintf("%s:%s:columns-silently-missing", prop, fk), Msg: fmt.Sprintf("%s: row %q lost fields: is %s, undamaged %s", qdesc, k, trimTo(v, 160), trimTo(w, 160))})
					break
				}
			}
		}
		// 2. missing rows need a reported error, and only queries touching the damaged segment may lose rows
		missing := 0
		for k := range want {
			if _, present := got[k]; !present {
				missing++
			}
		}
		if missing > 0 {
			if !touches {
				vs = append(vs, Violation{Sig: fmt.Sprintf("%s:%s:other-segments-affected", prop, fk), Msg: fmt.Sprintf("%s: %d rows missing although the query does not touch the damaged file (%s)", qdesc, missing, errText)})
			} else if errText == "" {
				vs = append(vs, Violation{Sig: fmt.Sprintf("%s:%s:rows-silently-missing", prop, fk), Msg: fmt.Sprintf("%s: %d of %d rows missing and no error reported", qdesc, missing, len(want))})
			}
		}
	}
	return dedupV(vs)
}

// the timestamp column file is named by the hash of its column name like every other column file
var tsColSuffix = fmt.Sprintf("_%d.csg", xxh64("timestamp"))

var filterColSuffix = [2]string{fmt.Sprintf("_%d.csg", xxh64("level")), fmt.Sprintf("_%d.csg", xxh64("code"))}

func fileKindDamage(p string) string {
	base := filepath.Base(p)
	switch {
	case strings.HasSuffix(base, tsColSuffix):
		return "csg-timestamp"
	case strings.HasSuffix(base, ".csg"):
		return "csg"
	case strings.HasSuffix(base, ".bsu"):
		return "bsu"
	case strings.HasSuffix(base, ".sfm"):
		return "sfm"
	case strings.HasSuffix(base, ".cmi"):
		return "cmi"
	case strings.HasSuffix(base, ".sst"):
		return "sst"
	case strings.HasSuffix(base, ".crup"):
		return "rollup"
	case base == "segmeta.json":
		return "segmeta"
	case base == "metricmeta.json":
		return "metricsmeta"
	case strings.HasSuffix(base, ".tso"):
		return "tso"
	case strings.HasSuffix(base, ".tsg"):
		return "tsg"
	case strings.HasSuffix(base, ".mbsu"):
		return "mbsu"
	case strings.HasSuffix(base, ".mnm"):
		return "mnames"
	case strings.Contains(p, "/tth/"):
		return "tagstree"
	case strings.HasSuffix(base, ".suffix"):
		return "suffix"
	case strings.Contains(base, "virtualtablenames"):
		return "vtablenames"
	}
	return "other"
}

// damageTargets: the stored files of log and metrics segments.
func damageTargets(dir string) map[string]int64 {
	out := map[string]int64{}
	_ = filepath.WalkDir(filepath.Join(dir, "d"), func(p string, d fs.DirEntry, err error) error {
		if err != nil || d.IsDir() {
			return nil
		}
		rel, _ := filepath.Rel(dir, p)
		if strings.Contains(rel, "/final/") {
			if fi, err := os.Stat(p); err == nil && fi.Size() > 0 {
				out[rel] = fi.Size()
			}
		}
		return nil
	})
	return out
}

func init() {
	register(&Check{
		ID:     "C18",
		Level:  "fault_enumeration",
		Rule:   "a small node is built deterministically (two indexes x two rotated log segments x 2-3 blocks, dictionary and plain columns, block summaries, micro-indexes, segment stats, rollups; one rotated metrics segment with tags tree) and shut down; then for a file of a segment one damage is applied (truncate to length n, or set byte i to a flipped bit / 0x00 / 0xFF), a fresh process boots on the tree and a fixed suite of 13 queries runs (incl. a time range cutting through every block and a timechart); every fourth damage is applied a second time to the live node - the suite runs on the intact files, the file changes under the running process (`damage_file`), the suite runs again. Oracle per query: every returned row equals the undamaged row (nothing invented, nothing altered); rows may be missing only from queries that touch the damaged file and only with a reported error; no crash, no hang, start-up succeeds. thorough: every length and every byte x 3 of every segment file until the time budget (exhaustive flag only if all were run); quick: all bytes of the first 24 bytes of each file + a stratified sample. distinct = (file, damage); non-trivial = the damaged file is read by at least one suite query",
		Run:    runC18,
		Oracle: func(res *RunResult) []Violation { return damageOracle("C18", res) },
		Assumptions: []string{
			"one damage at a time; only files under the segment directories (log and metrics) are damaged",
			"the suite is fixed: damage that no suite query reads is reported as trivial, not as verified",
		},
		Components: stdComponents,
	})
}

func runC18(c *Ctx) {
	nNodes, perNode := 1, 450
	if !c.Quick() {
		nNodes, perNode = 3, 1<<30
	}
	exhaustive := true
	done := 0
	for nd := 0; nd < nNodes && !c.Stopped(); nd++ {
		r := c.Rng(uint64(nd) + 1)
		base := genDamageNode(r)
		if f := os.Getenv("VERIF_C18_DUMPBASE"); f != "" {
			_ = (&replayFileOut{Property: "C18", Plan: base}).save(fmt.Sprintf("%s.%d.json", f, nd))
		}
		base.Property = "C18"
		base.Seed = c.Seed*1_000_003 + uint64(nd)
		var files map[string]int64
		res, err := RunPlan(base, func(dir string, next int) error {
			files = damageTargets(dir)
			return nil
		})
		if err != nil || harnessTrouble(res) != "" {
			c.Harness(fmt.Sprintf("node %d: %v", nd, err))
			continue
		}
		c.Account(res, fmt.Sprintf("n%d-undamaged", nd), true, nil)
		c.Report(base, c.Check.Oracle(res))
		clean := map[string]map[string]string{}
		for oi := range base.Incs[1].Ops {
			errText, rows := answerOf(res.Incs[1].Get(fmt.Sprint(oi)), base.Incs[1].Ops[oi].Kind)
			if errText != "" {
				c.Harness(fmt.Sprintf("node %d: undamaged query %d fails: %s", nd, oi, errText))
			}
			clean[fmt.Sprint(oi)] = rows
		}
		res.Cleanup()
		var names []string
		for f := range files {
			names = append(names, f)
		}
		sort.Strings(names)
		var dmgs []Damage
		for _, f := range names {
			sz := files[f]
			for n := int64(0); n < sz; n++ {
				dmgs = append(dmgs, Damage{BeforeInc: 1, File: f, Op: "trunc", At: n})
				dmgs = append(dmgs, Damage{BeforeInc: 1, File: f, Op: "flip", At: n, Val: 1 << uint((n*7)%8)},
					Damage{BeforeInc: 1, File: f, Op: "set", At: n, Val: 0x00}, Damage{BeforeInc: 1, File: f, Op: "set", At: n, Val: 0xFF})
			}
		}
		total := len(dmgs)
		if total > perNode {
			exhaustive = false
			// all header bytes of every file, then a stratified sample: per file kind round robin
			var pick []Damage
			byKind := map[string][]Damage{}
			var kinds []string
			for _, d := range dmgs {
				if d.At < 24 && (d.Op == "flip" || (d.Op == "trunc" && d.At%8 == 0)) && len(pick) < perNode/3 {
					pick = append(pick, d)
					continue
				}
				kd := fileKindDamage(d.File)
				if _, ok := byKind[kd]; !ok {
					kinds = append(kinds, kd)
				}
				byKind[kd] = append(byKind[kd], d)
			}
			sort.Strings(kinds)
			for len(pick) < perNode {
				progress := false
				for _, kd := range kinds {
					l := byKind[kd]
					if len(l) == 0 {
						continue
					}
					j := r.IntN(len(l))
					pick = append(pick, l[j])
					byKind[kd] = append(l[:j], l[j+1:]...)
					progress = true
					if len(pick) >= perNode {
						break
					}
				}
				if !progress {
					break
				}
			}
			// the timestamp column is read by every time-filtered query: ten evenly spread truncation lengths of
			// each of its files on top of the sample (a cut inside a checksummed chunk must be detected, not
			// answered with another block's timestamps)
			for _, f := range names {
				if fileKindDamage(f) != "csg-timestamp" {
					continue
				}
				for kx := int64(0); kx < 10; kx++ {
					pick = append(pick, Damage{BeforeInc: 1, File: f, Op: "trunc", At: files[f] * (2*kx + 1) / 20})
				}
			}
			// the columns the suite filters on (`level=error OR code>=500`): eight evenly spread byte flips in each
			// of their files, so that blocks after the first are hit too (a block that fails its checksum must be
			// skipped with an error, never answered from what the reader decoded for the block before it)
			for _, f := range names {
				base := filepath.Base(f)
				if !strings.HasSuffix(base, filterColSuffix[0]) && !strings.HasSuffix(base, filterColSuffix[1]) {
					continue
				}
				for kx := int64(0); kx < 8; kx++ {
					pick = append(pick, Damage{BeforeInc: 1, File: f, Op: "flip", At: files[f] * (2*kx + 1) / 16, Val: 1 << uint(kx%8)})
				}
			}
			dmgs = pick
		}
		c.SetExtra(fmt.Sprintf("node%d_files", nd), len(names))
		c.SetExtra(fmt.Sprintf("node%d_damage_space", nd), total)
		nsamp := 0
		// every damage is applied before start-up; every fourth one is applied a second time, under the running node
		nLive := len(dmgs) / 4
		c.Parallel(len(dmgs)+nLive, 0, func(j int) {
			live := j >= len(dmgs)
			if live {
				j = (j-len(dmgs))*4 + 3
			}
			d := dmgs[j]
			p := base.Clone()
			cleanFor := clean
			if live {
				// bit rot under a running server: the suite runs on the intact files first (whatever the node
				// verified or cached then), the medium changes, the suite runs again. Both passes are judged against
				// the undamaged answers.
				d.BeforeInc = -1 // not applied at start-up
				suite := p.Incs[1].Ops
				ops := append([]plan.Op(nil), suite...)
				ops = append(ops, plan.Op{Kind: "damage_file", Args: map[string]any{"file": d.File, "op": d.Op, "at": d.At, "val": d.Val}})
				ops = append(ops, suite...)
				p.Incs[1].Ops = ops
				cleanFor = map[string]map[string]string{}
				for k, v := range clean {
					cleanFor[k] = v
					var oi int
					if _, err := fmt.Sscan(k, &oi); err == nil {
						cleanFor[fmt.Sprint(len(suite)+1+oi)] = v
					}
				}
			}
			p.Params["damage"] = []Damage{d}
			p.Params["clean"] = cleanFor
			p.Note = fmt.Sprintf("node %d damage %+v", nd, d)
			res, err := RunPlan(p, genericBetween)
			if err != nil || harnessTrouble(res) != "" {
				c.Harness(fmt.Sprintf("job %d: %v", j, err))
				return
			}
			defer res.Cleanup()
			vs := c.Check.Oracle(res)
			var sample any
			c.mu.Lock()
			if nsamp < 3 {
				nsamp++
				sample = map[string]any{"node": nd, "damage": d, "file_kind": fileKindDamage(d.File)}
			}
			done++
			if live {
				c.faultCounts["file_damage_while_running:"+d.Op]++
			} else {
				c.faultCounts["file_damage:"+d.Op]++
			}
			c.mu.Unlock()
			c.Account(res, fmt.Sprintf("n%d-%s-%s-%d-%d-live%v", nd, d.File, d.Op, d.At, d.Val, live), true, sample)
			c.Probe("damage@"+fileKindDamage(d.File), 1)
			c.Report(p, vs)
		})
		if c.Stopped() {
			exhaustive = false
		}
	}
	ex := exhaustive
	c.exhaustive = &ex
	c.SetExtra("damages_run", done)
}

func splitFields(row string) map[string]string {
	out := map[string]string{}
	for _, kv := range strings.Split(row, ";") {
		if i := strings.IndexByte(kv, '='); i > 0 {
			out[kv[:i]] = kv[i+1:]
		}
	}
	return out
}

// xxh64: XXH64 with seed 0 (the column file naming hash), written out here so that the driver needs no module
// beyond the standard library.
func xxh64(str string) uint64 {
	const (
		p1 uint64 = 11400714785074694791
		p2 uint64 = 14029467366897019727
		p3 uint64 = 1609587929392839161
		p4 uint64 = 9650029242287828579
		p5 uint64 = 2870177450012600261
	)
	rol := func(x uint64, r uint) uint64 { return x<<r | x>>(64-r) }
	round := func(acc, in uint64) uint64 { return rol(acc+in*p2, 31) * p1 }
	merge := func(acc, v uint64) uint64 { return (acc^round(0, v))*p1 + p4 }
	le64 := func(b []byte) uint64 {
		return uint64(b[0]) | uint64(b[1])<<8 | uint64(b[2])<<16 | uint64(b[3])<<24 | uint64(b[4])<<32 | uint64(b[5])<<40 | uint64(b[6])<<48 | uint64(b[7])<<56
	}
	le32 := func(b []byte) uint64 { return uint64(b[0]) | uint64(b[1])<<8 | uint64(b[2])<<16 | uint64(b[3])<<24 }
	b := []byte(str)
	n := len(b)
	var h uint64
	if n >= 32 {
		q1, q2 := p1, p2 // variables: the sums wrap around
		v1, v2, v3, v4 := q1+q2, q2, uint64(0), -q1
		for len(b) >= 32 {
			v1 = round(v1, le64(b[0:]))
			v2 = round(v2, le64(b[8:]))
			v3 = round(v3, le64(b[16:]))
			v4 = round(v4, le64(b[24:]))
			b = b[32:]
		}
		h = rol(v1, 1) + rol(v2, 7) + rol(v3, 12) + rol(v4, 18)
		h = merge(h, v1)
		h = merge(h, v2)
		h = merge(h, v3)
		h = merge(h, v4)
	} else {
		h = p5
	}
	h += uint64(n)
	for len(b) >= 8 {
		h ^= round(0, le64(b))
		h = rol(h, 27)*p1 + p4
		b = b[8:]
	}
	if len(b) >= 4 {
		h ^= le32(b) * p1
		h = rol(h, 23)*p2 + p3
		b = b[4:]
	}
	for _, c := range b {
		h ^= uint64(c) * p5
		h = rol(h, 11) * p1
	}
	h ^= h >> 33
	h *= p2
	h ^= h >> 29
	h *= p3
	h ^= h >> 32
	return h
}

// replayFileOut writes a plan in replay-file format (development aid: VERIF_C18_DUMPBASE).
type replayFileOut struct {
	Property string     `json:"property"`
	Plan     *plan.Plan `json:"plan"`
}

func (r *replayFileOut) save(path string) error {
	b, err := json.Marshal(r)
	if err != nil {
		return err
	}
	return os.WriteFile(path, b, 0o644)
}
