package main

import (
	"encoding/json"
	"fmt"
	"os"
	"path/filepath"
	"time"

	"simlens/plan"
)

// genericBetween applies the damage faults a plan lists for the gap before incarnation nextInc:
// Params["damage"] = [{"before_inc":1,"file":"<rel path under scratch>","op":"trunc|set|flip|remove","at":N,"val":B}]
func genericBetween(dir string, nextInc int) error {
	b, err := os.ReadFile(filepath.Join(dir, "plan.json"))
	if err != nil {
		return err
	}
	var p plan.Plan
	if err := json.Unmarshal(b, &p); err != nil {
		return err
	}
	raw, ok := p.Params["damage"]
	if !ok {
		return nil
	}
	rb, _ := json.Marshal(raw)
	var ds []Damage
	if err := json.Unmarshal(rb, &ds); err != nil {
		return err
	}
	for _, d := range ds {
		if d.BeforeInc != nextInc {
			continue
		}
		if err := applyDamage(dir, d); err != nil {
			return err
		}
	}
	return nil
}

type Damage struct {
	BeforeInc int    `json:"before_inc"`
	File      string `json:"file"`
	Op        string `json:"op"`
	At        int64  `json:"at"`
	Val       int    `json:"val"`
}

func applyDamage(dir string, d Damage) error {
	path := filepath.Join(dir, d.File)
	switch d.Op {
	case "remove":
		return os.Remove(path)
	case "trunc":
		return os.Truncate(path, d.At)
	case "set", "flip":
		f, err := os.OpenFile(path, os.O_RDWR, 0)
		if err != nil {
			return err
		}
		defer f.Close()
		var b [1]byte
		if _, err := f.ReadAt(b[:], d.At); err != nil {
			return err
		}
		if d.Op == "flip" {
			b[0] ^= byte(d.Val)
		} else {
			b[0] = byte(d.Val)
		}
		_, err = f.WriteAt(b[:], d.At)
		return err
	}
	return fmt.Errorf("unknown damage op %q", d.Op)
}

// shrinkAndConfirm minimises a failing plan while the same violation signature persists, then re-runs the
// result once more in fresh processes. It returns the minimised plan and whether it reproduced.
func shrinkAndConfirm(c *Ctx, p *plan.Plan, v Violation) (*plan.Plan, bool) {
	budget := 60 * time.Second
	if c.Tier == "thorough" {
		budget = 5 * time.Minute
	}
	deadline := time.Now().Add(budget)
	fails := func(q *plan.Plan) bool {
		res, err := c.Check.exec(q)
		if err != nil {
			return false
		}
		defer res.Cleanup()
		if harnessTrouble(res) != "" {
			return false
		}
		for _, w := range c.Check.Oracle(res) {
			if w.Sig == v.Sig {
				return true
			}
		}
		return false
	}
	if !fails(p) {
		// not even the original reproduces
		return p, false
	}
	cur := p.Clone()
	progress := true
	for progress && time.Now().Before(deadline) {
		progress = false
		// 1. drop whole ops, last to first
		for ii := len(cur.Incs) - 1; ii >= 0 && time.Now().Before(deadline); ii-- {
			for oi := len(cur.Incs[ii].Ops) - 1; oi >= 0 && time.Now().Before(deadline); oi-- {
				if c.Check.Pinned != nil && c.Check.Pinned(&cur.Incs[ii].Ops[oi]) {
					continue
				}
				q := cur.Clone()
				q.Incs[ii].Ops = append(q.Incs[ii].Ops[:oi:oi], q.Incs[ii].Ops[oi+1:]...)
				if fails(q) {
					cur = q
					progress = true
				}
			}
		}
		// 2. halve event lists
		for ii := range cur.Incs {
			for oi := range cur.Incs[ii].Ops {
				for time.Now().Before(deadline) {
					evs := cur.Incs[ii].Ops[oi].Events
					if len(evs) < 2 {
						break
					}
					half := len(evs) / 2
					q := cur.Clone()
					q.Incs[ii].Ops[oi].Events = evs[:half]
					if fails(q) {
						cur = q
						progress = true
						continue
					}
					q = cur.Clone()
					q.Incs[ii].Ops[oi].Events = evs[half:]
					if fails(q) {
						cur = q
						progress = true
						continue
					}
					break
				}
			}
		}
		// 3. drop faults and scheduler choices
		for ii := range cur.Incs {
			for fi := len(cur.Incs[ii].Faults) - 1; fi >= 0 && time.Now().Before(deadline); fi-- {
				q := cur.Clone()
				q.Incs[ii].Faults = append(q.Incs[ii].Faults[:fi:fi], q.Incs[ii].Faults[fi+1:]...)
				if fails(q) {
					cur = q
					progress = true
				}
			}
			if cur.Knobs.PreemptPermille > 0 && time.Now().Before(deadline) {
				q := cur.Clone()
				q.Knobs.PreemptPermille = 0
				if fails(q) {
					cur = q
					progress = true
				}
			}
		}
		// 4. drop trailing incarnations that are not needed
		for len(cur.Incs) > 1 && time.Now().Before(deadline) {
			q := cur.Clone()
			q.Incs = q.Incs[:len(q.Incs)-1]
			if fails(q) {
				cur = q
				progress = true
				continue
			}
			break
		}
	}
	return cur, fails(cur)
}
