package main

import (
	"encoding/json"
	"fmt"
	"math/rand/v2"
	"sort"
	"strconv"
	"strings"

	"simlens/plan"
)

// "sortable" family: dense same-typed sort keys with duplicates and values closer than 1e-4.
func (g *EvGen) nextSortable(ts int64) *Event {
	g.n++
	r := g.r
	vid := fmt.Sprintf("%s%d", g.prefix, g.n)
	w := &jw{flat: map[string]Val{}}
	parts := []string{`"vid":` + w.scalar("vid", 's', vid), fmt.Sprintf(`"timestamp":%d`, ts)}
	add := func(k, v string) { parts = append(parts, jsonStr(k)+":"+v) }
	add("a", w.scalar("a", 'n', strconv.Itoa(r.IntN(40)-20)))
	add("c", w.scalar("c", 'n', strconv.Itoa(r.IntN(3)))) // three values: long runs of equal first keys
	base := []float64{1000, 1000.00001, 1000.00002, 999.99999, -5.5, 0.25, 123456.789}[r.IntN(7)]
	add("b", w.scalar("b", 'n', strconv.FormatFloat(base+float64(r.IntN(3))*0.00001, 'f', -1, 64)))
	add("s", w.scalar("s", 's', []string{"apple", "Apple", "banana", "cherry", "apple pie", "b", "zz", "x10", "x9", "a1"}[r.IntN(10)]+strconv.Itoa(r.IntN(3))))
	raw := "{" + strings.Join(parts, ",") + "}"
	return &Event{VID: vid, TS: ts, Flat: w.flat, Raw: json.RawMessage(raw)}
}

type OrdSpec struct {
	Kind string   `json:"kind"` // default | head | sort | page
	N    int      `json:"n,omitempty"`
	Keys []SortKey `json:"keys,omitempty"`
	Lim  int      `json:"lim,omitempty"` // sort: explicit `sort <lim> ...` (0 = none; the response size limits instead)
	Page int      `json:"page,omitempty"`
	Of   int      `json:"of,omitempty"` // page: total matches expected
}

type SortKey struct {
	Field string `json:"f"`
	Mode  string `json:"m"` // num | str | auto | ""
	Desc  bool   `json:"d"`
}

func (o OrdSpec) Text() string {
	switch o.Kind {
	case "head":
		return fmt.Sprintf("* | head %d", o.N)
	case "sort":
		var ks []string
		for _, k := range o.Keys {
			s := k.Field
			if k.Mode != "" {
				s = k.Mode + "(" + k.Field + ")"
			}
			if k.Desc {
				s = "-" + s
			} else {
				s = "+" + s
			}
			ks = append(ks, s)
		}
		if o.Lim > 0 {
			return fmt.Sprintf("* | sort %d %s", o.Lim, strings.Join(ks, ", "))
		}
		return "* | sort " + strings.Join(ks, ", ")
	}
	return "*"
}

func genOrderQueries(r *rand.Rand, index string, total int, indexed []string) []plan.Op {
	var ops []plan.Op
	mk := func(o OrdSpec, size, from int) {
		sb, _ := json.Marshal(o)
		var spec map[string]any
		_ = json.Unmarshal(sb, &spec)
		ops = append(ops, plan.Op{Kind: "query", Index: index, Text: o.Text(), Start: qStart, End: qEnd, Size: size, From: from, Args: map[string]any{"ord": spec, "includeNulls": true}})
	}
	// default order with a size limit
	n := 1 + r.IntN(total+3)
	mk(OrdSpec{Kind: "default", N: n}, n, 0)
	// head
	hn := 1 + r.IntN(total+3)
	mk(OrdSpec{Kind: "head", N: hn}, total+50, 0)
	// sorts
	for i := 0; i < 2; i++ {
		var keys []SortKey
		fields := []string{"a", "b", "s", "c"}
		r.Shuffle(4, func(x, y int) { fields[x], fields[y] = fields[y], fields[x] })
		if r.IntN(3) == 0 && fields[0] != "c" {
			// a first key with few distinct values: the second key decides within long groups of ties
			for x := range fields {
				if fields[x] == "c" {
					fields[0], fields[x] = fields[x], fields[0]
				}
			}
		}
		for j := 0; j < 1+r.IntN(2); j++ {
			f := fields[j]
			mode := ""
			switch f {
			case "a", "b", "c":
				mode = []string{"", "num", "auto"}[r.IntN(3)]
			case "s":
				mode = []string{"", "str"}[r.IntN(2)]
			}
			keys = append(keys, SortKey{Field: f, Mode: mode, Desc: r.IntN(2) == 0})
		}
		deep := false
		if len(indexed) > 0 && r.IntN(2) == 0 {
			// answered from the sort index: first key = an indexed column, a second key that the index knows
			// nothing about, and a limit that reaches into the last groups of equal first keys
			second := fields[0]
			if second == indexed[0] {
				second = fields[1]
			}
			keys = []SortKey{{Field: indexed[0], Desc: r.IntN(2) == 0}, {Field: second, Desc: r.IntN(2) == 0}}
			deep = true
		}
		sz := total + 50
		if r.IntN(2) == 0 {
			sz = 1 + r.IntN(total+1)
			if r.IntN(3) == 0 {
				sz = 1 + r.IntN(6) // a limit inside one group of equal first keys
			}
		}
		if deep && total > 3 {
			sz = total - r.IntN(total/3+1)
		}
		if sz <= total && (deep || r.IntN(2) == 0) {
			// the limit as part of the command (`sort 5 +a, -b`): the response size does not cut
			mk(OrdSpec{Kind: "sort", Keys: keys, N: sz, Lim: sz}, total+50, 0)
		} else {
			mk(OrdSpec{Kind: "sort", Keys: keys, N: sz}, sz, 0)
		}
	}
	// paging through the static match-all result
	if total > 0 {
		k := 1 + r.IntN(total)
		if total > 40 && k < total/8 {
			k = total / 8
		}
		for from, pg := 0, 0; from < total+k && pg < 12; from, pg = from+k, pg+1 {
			mk(OrdSpec{Kind: "page", N: k, Page: pg, Of: total}, k, from)
		}
	}
	return ops
}

func recTS(rec map[string]interface{}) (int64, bool) {
	if n, ok := rec["timestamp"].(json.Number); ok {
		i, err := n.Int64()
		return i, err == nil
	}
	return 0, false
}

// cmpKey orders two model events under one sort key. ok=false when the pair is not comparable by the
// stated rules (different kinds): such pairs are not judged.
func cmpKey(k SortKey, x, y *Event) (int, bool) {
	vx, okx := x.Flat[k.Field]
	vy, oky := y.Flat[k.Field]
	if !okx || !oky {
		return 0, false
	}
	c := 0
	switch k.Mode {
	case "str":
		sx, sy := valText(vx), valText(vy)
		c = strings.Compare(sx, sy)
	default:
		fx, nx := valNum(vx)
		fy, ny := valNum(vy)
		if nx && ny {
			switch {
			case fx < fy:
				c = -1
			case fx > fy:
				c = 1
			}
		} else if !nx && !ny {
			c = strings.Compare(valText(vx), valText(vy))
		} else {
			return 0, false
		}
	}
	if k.Desc {
		c = -c
	}
	return c, true
}

func cmpKeys(ks []SortKey, x, y *Event) (int, bool) {
	for _, k := range ks {
		c, ok := cmpKey(k, x, y)
		if !ok {
			return 0, false
		}
		if c != 0 {
			return c, true
		}
	}
	return 0, true
}

// orderState keeps the pages of one paging sequence (per index) while walking a history.
type orderState struct {
	pages map[string]map[int][]string // index -> page number -> vids
}

func checkOrder(prop string, o OrdSpec, op *plan.Op, evs []*Event, byVID map[string]*Event, q *qData, where string, st *orderState) []Violation {
	var vs []Violation
	var got []*Event
	seen := map[string]bool{}
	for _, rec := range q.Records {
		vid, _ := rec["vid"].(string)
		e := byVID[vid]
		if e == nil {
			vs = append(vs, Violation{Sig: prop + ":" + o.Kind + ":unknown-event", Msg: where + ": " + vid})
			continue
		}
		if seen[vid] {
			vs = append(vs, Violation{Sig: prop + ":" + o.Kind + ":event-twice", Msg: fmt.Sprintf("%s: %s: %s returned twice", where, op.Text, vid)})
		}
		seen[vid] = true
		got = append(got, e)
	}
	total := len(evs)
	switch o.Kind {
	case "default", "head":
		want := o.N
		if want > total {
			want = total
		}
		if len(got) != want {
			vs = append(vs, Violation{Sig: prop + ":" + o.Kind + ":wrong-number-of-results", Msg: fmt.Sprintf("%s: %s size=%d: %d results, expected %d of %d matches", where, op.Text, op.Size, len(got), want, total)})
		}
		for i := 1; i < len(got); i++ {
			if got[i].TS > got[i-1].TS {
				vs = append(vs, Violation{Sig: prop + ":" + o.Kind + ":not-newest-first", Msg: fmt.Sprintf("%s: %s: result %d (ts %d) is newer than result %d (ts %d)", where, op.Text, i, got[i].TS, i-1, got[i-1].TS)})
				break
			}
		}
		// the n newest: every event not returned is not newer than the oldest returned
		if len(got) > 0 && len(got) == want {
			oldest := got[len(got)-1].TS
			for _, e := range evs {
				if !seen[e.VID] && e.TS > oldest {
					vs = append(vs, Violation{Sig: prop + ":" + o.Kind + ":not-the-n-newest", Msg: fmt.Sprintf("%s: %s: %s (ts %d) was left out although newer than a returned event (ts %d); n=%d of %d", where, op.Text, e.VID, e.TS, oldest, want, total)})
					break
				}
			}
		}
	case "sort":
		for i := 1; i < len(got); i++ {
			if c, ok := cmpKeys(o.Keys, got[i-1], got[i]); ok && c > 0 {
				vs = append(vs, Violation{Sig: prop + ":sort:adjacent-out-of-order", Msg: fmt.Sprintf("%s: %s: results %d (%s) and %d (%s) are out of order: %v vs %v", where, op.Text, i-1, got[i-1].VID, i, got[i].VID, keyVals(o.Keys, got[i-1]), keyVals(o.Keys, got[i]))})
				break
			}
		}
		want := o.N
		if want > total {
			want = total
		}
		if len(got) != want {
			vs = append(vs, Violation{Sig: prop + ":sort:wrong-number-of-results", Msg: fmt.Sprintf("%s: %s size=%d: %d results, expected %d of %d", where, op.Text, op.Size, len(got), want, total)})
		} else if len(got) > 0 && len(got) < total {
			last := got[len(got)-1]
			for _, e := range evs {
				if !seen[e.VID] {
					if c, ok := cmpKeys(o.Keys, e, last); ok && c < 0 {
						vs = append(vs, Violation{Sig: prop + ":sort:limit-not-a-prefix", Msg: fmt.Sprintf("%s: %s size=%d: %s %v sorts before the last returned %s %v but was left out", where, op.Text, op.Size, e.VID, keyVals(o.Keys, e), last.VID, keyVals(o.Keys, last))})
						break
					}
				}
			}
		}
	case "page":
		if st.pages[op.Index] == nil || o.Page == 0 {
			if st.pages == nil {
				st.pages = map[string]map[int][]string{}
			}
			st.pages[op.Index] = map[int][]string{}
		}
		var vids []string
		for _, e := range got {
			vids = append(vids, e.VID)
		}
		st.pages[op.Index][o.Page] = vids
		// last page of the sequence: evaluate the concatenation
		if (o.Page+1)*o.N >= total {
			count := map[string]int{}
			n := 0
			complete := true
			for pg := 0; pg <= o.Page; pg++ {
				p, ok := st.pages[op.Index][pg]
				if !ok {
					complete = false // a page of the sequence is missing (shrunk plan)
				}
				for _, v := range p {
					count[v]++
					n++
				}
			}
			if complete && total == o.Of {
				for v, c := range count {
					if c > 1 {
						vs = append(vs, Violation{Sig: prop + ":page:event-on-two-pages", Msg: fmt.Sprintf("%s: paging size=%d: %s appears %d times across pages", where, o.N, v, c)})
						break
					}
				}
				if len(count) != total {
					vs = append(vs, Violation{Sig: prop + ":page:pages-do-not-cover-all-matches", Msg: fmt.Sprintf("%s: paging size=%d over %d matches: the pages hold %d distinct events (%d rows)", where, o.N, total, len(count), n)})
				}
			}
		}
	}
	return vs
}

func keyVals(ks []SortKey, e *Event) []string {
	var out []string
	for _, k := range ks {
		out = append(out, valText(e.Flat[k.Field]))
	}
	return out
}

func init() {
	register(&Check{
		ID:    "C05",
		Level: "exploration",
		Rule: "each case is one seeded history of the 'sortable' family (out-of-order arrival, timestamp ties, overlapping block and segment time ranges, duplicate and <1e-4-apart sort values) with flush / rotation / idle-timer / restart steps, half of them with sort indexes configured on one or two sort-key fields; after every flush-completing step: a size-limited match-all, `head n`, two `sort` specifications (num/str/auto, asc/desc, one or two keys, with and without a limit) and a from/size paging sequence are checked against the order model. distinct = distinct (operation shape, knobs, query texts and sizes); non-trivial = at least two flushed blocks",
		Run: func(c *Ctx) {
			n := 120
			if !c.Quick() {
				n = 5000
			}
			o := histOpts{families: []string{"sortable"}, maxIdx: 2, minBatches: 3, maxBatches: 9, maxEvents: 50, restarts: true}
			if !c.Quick() {
				o.maxEvents = 400
			}
			c.Explore(n, func(r *rand.Rand, i int) *plan.Plan {
				oo := o
				// half of the histories build sort indexes (POST /api/sort-columns before any data) on one to three of
				// the sort-key fields: `sort` on an indexed first key is answered from the per-segment sort index
				var sortCols map[string][]string
				if r.IntN(2) == 0 {
					sortCols = map[string][]string{}
					for i := 0; i < oo.maxIdx; i++ {
						sortCols[fmt.Sprintf("ix%dsortable", i)] = [][]string{{"a"}, {"b"}, {"s"}, {"c"}, {"a", "s"}, {"b", "a"}, {"c", "a"}, {"c", "s", "b"}}[r.IntN(8)]
					}
				}
				oo.queries = func(ix string, n int) []plan.Op { return genOrderQueries(r, ix, n, sortCols[ix]) }
				p := genHistory(r, oo)
				p.Knobs.SortCols = sortCols
				return p
			}, func(res *RunResult) (string, bool, any) {
				key, nt, sample := histShape(res)
				var qs []string
				for _, inc := range res.Plan.Incs {
					for _, op := range inc.Ops {
						if op.Kind == "query" && len(qs) < 8 {
							qs = append(qs, fmt.Sprintf("%s size=%d from=%d", op.Text, op.Size, op.From))
						}
					}
				}
				if sm, ok := sample.(map[string]any); ok {
					sm["queries"] = qs
				}
				return key + strings.Join(qs, ";"), nt, sample
			})
		},
		Oracle: func(res *RunResult) []Violation {
			st := &orderState{}
			vs, _ := walkHistory("C05", res, func(m *LogModel, op *plan.Op, q *qData, where string) []Violation {
				sb, _ := json.Marshal(op.Args["ord"])
				var o OrdSpec
				if err := json.Unmarshal(sb, &o); err != nil || o.Kind == "" {
					return nil
				}
				evs := m.ByIndex[op.Index][:m.Flushed[op.Index]]
				return checkOrder("C05", o, op, evs, m.ByVID, q, where, st)
			})
			return vs
		},
		Assumptions: []string{
			"sort keys are dense and same-typed per field; pairs of different kinds are not judged",
			"ties (equal timestamps / equal keys) may resolve either way; the limit must be a prefix of some valid order",
			"paging is checked over data that does not change between the pages",
		},
		Components: stdComponents,
	})
	_ = sort.Strings
}
