package main

import (
	"regexp"
	"os"
	"encoding/json"
	"fmt"
	"math/rand/v2"
	"sort"
	"strings"

	"simlens/plan"
)

// genConcurrent: one incarnation; a `par` op with ingester, flusher/rotator and searcher clients running as
// concurrent tasks under the seeded scheduler while the real idle / max-wait flush loops run on the fake
// clock; afterwards quiescence (clock advance), final flush, and a match-all per index.
// genHandover: events are flushed (completed) into an open segment; then a forced rotation runs concurrently
// with back-to-back searches under heavy pre-emption, so that searches take their unrotated / rotated
// snapshots inside the few statements of the unrotated -> rotated hand-over.
func genHandover(r *rand.Rand) *plan.Plan {
	k := plan.Knobs{Sched: true, Procs: []int{1, 2, 4}[r.IntN(3)], PreemptPermille: []int{0, 20, 100}[r.IntN(3)]}
	k.MaxDecisions = 600_000 // these histories take 10-60 k decisions; a task that never blocks is found sooner
	// site delays: a per-run subset of lock / channel / fs sites holds its task back long enough for the
	// other clients to run through whole operations (the classic way to open a hand-over window)
	k.DelayPermille = []int{10, 30, 60}[r.IntN(3)]
	k.DelayLen = []int{100, 400, 1500}[r.IntN(3)]
	if r.IntN(2) == 0 {
		// targeted instead of random: hold every task back inside one of the pieces of code in which a search
		// chooses its segments and opens them, or in which a rotation hands a segment over
		k.DelayPermille = 0
		k.DelaySites = [][]string{
			{"pkg/segment/metadata/"}, {"pkg/segment/writer/unrotatedquery.go"}, {"pkg/segment/query/segquery.go"},
			{"pkg/segment/reader/segread/"}, {"pkg/segment/query/metadata/"}, {"pkg/segment/writer/segstore.go"},
			{"pkg/segment/metadata/", "pkg/segment/writer/unrotatedquery.go"},
			// readers only (site names start with the kind of the operation: R: read lock, W: write lock):
			// a search is held at its snapshot of the unrotated / rotated tables while writers proceed
			{"R:pkg/segment/writer/unrotatedquery.go"}, {"R:pkg/segment/metadata/"}, {"R:pkg/segment/writer/"},
			{"R:pkg/segment/writer/unrotatedquery.go"}, {"R:pkg/segment/metadata/"},
		}[r.IntN(12)]
		k.DelayLen = []int{30, 100, 400}[r.IntN(3)]
	}
	if f := os.Getenv("VERIF_C11_DELAY_SITES"); f != "" {
		k.DelayPermille, k.DelaySites = 0, strings.Split(f, ",") // development aid
	}
	if r.IntN(2) == 0 {
		k.PQS = &boolF
	}
	p := &plan.Plan{Knobs: k, Params: map[string]any{}}
	inc := plan.Incarnation{Boot: "full", SchedSeed: r.Uint64()>>11 | 1}
	nIdx := 1 + r.IntN(2)
	total := map[string]int{}
	var names []string
	gens := map[string]*EvGen{}
	for i := 0; i < nIdx; i++ {
		n := fmt.Sprintf("hx%d", i)
		names = append(names, n)
		gens[n] = NewEvGen(r, []string{"flat", "sparse"}[r.IntN(2)], fmt.Sprintf("h%d-", i), 5)
	}
	batch := func(ix string, n int) plan.Op {
		var evs []json.RawMessage
		for j := 0; j < n; j++ {
			evs = append(evs, gens[ix].Next(simEpochMs+int64(r.IntN(600_000))).Raw)
		}
		total[ix] += n
		return plan.Op{Kind: "ingest", Index: ix, Events: evs}
	}
	rounds := 1 + r.IntN(3)
	for rd := 0; rd < rounds; rd++ {
		for _, ix := range names {
			inc.Ops = append(inc.Ops, batch(ix, 5+r.IntN(30)))
		}
		inc.Ops = append(inc.Ops, plan.Op{Kind: "flush"})
		var clients [][]plan.Op
		// queries are admitted by a loop that polls every 10 ms of simulated time: the rotation is started at or
		// next to such an instant, so that it runs while the searches choose and open their segments
		clients = append(clients, []plan.Op{{Kind: "advance", DurMs: int64([]int{0, 9, 10, 10, 10, 11, 20, 20}[r.IntN(8)])}, {Kind: "rotate"}})
		for c := 0; c < 2+r.IntN(3); c++ {
			var ops []plan.Op
			if r.IntN(2) == 0 {
				ops = append(ops, plan.Op{Kind: "advance", DurMs: int64(r.IntN(12))})
			}
			for q := 0; q < 2+r.IntN(3); q++ {
				ops = append(ops, plan.Op{Kind: "query", Index: names[r.IntN(len(names))], Text: "*", Start: qStart, End: qEnd, Size: 2000, Args: map[string]any{"includeNulls": true}})
			}
			clients = append(clients, ops)
		}
		if r.IntN(2) == 0 {
			ix := names[r.IntN(len(names))]
			clients = append(clients, []plan.Op{batch(ix, 3+r.IntN(10))})
		}
		inc.Ops = append(inc.Ops, plan.Op{Kind: "par", Par: clients})
	}
	inc.Ops = append(inc.Ops, plan.Op{Kind: "advance", DurMs: 12_000}, plan.Op{Kind: "flush"})
	for _, ix := range names {
		inc.Ops = append(inc.Ops, matchAll(ix, total[ix]+100))
	}
	p.Incs = []plan.Incarnation{inc}
	return p
}

func genConcurrent(r *rand.Rand, quick bool) *plan.Plan {
	if r.IntN(2) == 0 {
		return genHandover(r)
	}
	k := plan.Knobs{Sched: true}
	k.Procs = []int{1, 2, 4, 8, 16}[r.IntN(5)]
	k.PreemptPermille = []int{0, 5, 20, 50, 100, 300}[r.IntN(6)]
	switch r.IntN(3) {
	case 0:
		k.MaxSegFileSize = 1
	case 1:
		k.MaxSegFileSize = 20_000
	}
	if r.IntN(2) == 0 {
		k.PQS = &boolF
	}
	if r.IntN(3) == 0 {
		k.Aggs = &boolF
	}
	k.IdleFlushSecs = 5
	k.MaxWaitSecs = []int{30, 7, 11}[r.IntN(3)]
	p := &plan.Plan{Knobs: k, Params: map[string]any{}}
	nIdx := 1 + r.IntN(2)
	var idxNames []string
	gens := map[string]*EvGen{}
	for i := 0; i < nIdx; i++ {
		n := fmt.Sprintf("cx%d", i)
		idxNames = append(idxNames, n)
		gens[n] = NewEvGen(r, []string{"flat", "sparse", "card"}[r.IntN(3)], fmt.Sprintf("c%d-", i), 5)
	}
	think := func() plan.Op {
		// think times around the 5 s idle period so that timer flushes land inside, before and after ingest calls
		return plan.Op{Kind: "advance", DurMs: int64([]int{0, 1, 200, 2400, 4990, 5000, 5010, 7000}[r.IntN(8)])}
	}
	var clients [][]plan.Op
	nIng := 2 + r.IntN(3)
	total := map[string]int{}
	for c := 0; c < nIng; c++ {
		var ops []plan.Op
		nb := 2 + r.IntN(4)
		for b := 0; b < nb; b++ {
			ix := idxNames[r.IntN(len(idxNames))]
			var evs []json.RawMessage
			ne := 3 + r.IntN(25)
			for j := 0; j < ne; j++ {
				evs = append(evs, gens[ix].Next(simEpochMs+int64(r.IntN(600_000))).Raw)
			}
			total[ix] += ne
			ops = append(ops, plan.Op{Kind: "ingest", Index: ix, Events: evs})
			if r.IntN(3) > 0 {
				ops = append(ops, think())
			}
		}
		clients = append(clients, ops)
	}
	// flusher / rotator
	{
		var ops []plan.Op
		for b := 0; b < 2+r.IntN(4); b++ {
			ops = append(ops, think())
			if r.IntN(2) == 0 {
				ops = append(ops, plan.Op{Kind: "flush"})
			} else {
				ops = append(ops, plan.Op{Kind: "rotate"})
			}
		}
		clients = append(clients, ops)
	}
	nSearch := 1 + r.IntN(3)
	for c := 0; c < nSearch; c++ {
		var ops []plan.Op
		for b := 0; b < 3+r.IntN(5); b++ {
			ops = append(ops, think())
			ix := idxNames[r.IntN(len(idxNames))]
			ops = append(ops, plan.Op{Kind: "query", Index: ix, Text: "*", Start: qStart, End: qEnd, Size: 2000, Args: map[string]any{"includeNulls": true}})
		}
		clients = append(clients, ops)
	}
	// one history in three has the node's memory limiter as one more concurrent party: it hands the open
	// segments' metadata a budget below what they hold (mem_pressure = the production entry point
	// RebalanceUnrotatedMetadata) while ingests, flushes, rotations and searches run. The choices come from a
	// generator of their own (derived from what has been generated so far), so that the histories of earlier
	// versions of this family stay what they were.
	{
		sum := 0
		for _, n := range total {
			sum += n
		}
		r2 := rand.New(rand.NewPCG(uint64(len(clients))*1_000_003+uint64(sum), 0x11d))
		if r2.IntN(3) == 0 {
			var ops []plan.Op
			press := func() plan.Op {
				return plan.Op{Kind: "mem_pressure", Args: map[string]any{"unrotated_permille": float64([]int{0, 100, 500, 900}[r2.IntN(4)])}}
			}
			if r2.IntN(2) == 0 {
				// the limiter wakes at the instants at which the flusher/rotator acts (same think times): it meets
				// flushes and rotations in progress; the open segments have metadata to evict from the second one on
				for _, fo := range clients[nIng] {
					if fo.Kind == "advance" {
						ops = append(ops, fo)
					} else {
						ops = append(ops, press())
					}
				}
			} else {
				for b := 0; b < 2+r2.IntN(5); b++ {
					ops = append(ops, plan.Op{Kind: "advance", DurMs: int64([]int{0, 1, 200, 2400, 4990, 5000, 5010, 7000}[r2.IntN(8)])}, press())
				}
			}
			clients = append(clients, ops)
			p.Params["memory_limiter_client"] = true
		}
	}
	inc := plan.Incarnation{Boot: "full", SchedSeed: r.Uint64()>>11 | 1}
	inc.Ops = append(inc.Ops, plan.Op{Kind: "par", Par: clients})
	// quiescence: timers drained, final flush, final reads
	inc.Ops = append(inc.Ops, plan.Op{Kind: "advance", DurMs: 40_000}, plan.Op{Kind: "flush"})
	for _, ix := range idxNames {
		inc.Ops = append(inc.Ops, matchAll(ix, total[ix]+100))
	}
	p.Incs = []plan.Incarnation{inc}
	return p
}

type interval struct{ inv, ret uint64 }

func concurrentOracle(prop string, res *RunResult) []Violation {
	var vs []Violation
	if len(res.Incs) == 0 {
		return nil
	}
	ir := res.Incs[0]
	switch ab := ir.Abnormal(); ab {
	case "":
	case "harness", "wall-timeout":
		return nil
	case "deadlock":
		d := ""
		if e := ir.Get("deadlock"); e != nil {
			d = e.Err
		}
		return []Violation{{Sig: prop + ":deadlock:" + deadlockSig(d), Msg: d}}
	case "hang":
		d := ""
		if e := ir.Get("hang"); e != nil {
			d = e.Err
		}
		return []Violation{{Sig: prop + ":hang:" + ir.HangKind() + ":" + spinningTasks(d), Msg: trimTo(d, 3000)}}
	default:
		return []Violation{{Sig: prop + ":node-" + ab + ":" + ir.PanicSite(), Msg: trimTo(ir.Stderr, 2000)}}
	}
	m := newLogModel()
	ingestIv := map[string]interval{} // vid -> interval of its ingest call
	var flushes []interval
	type search struct {
		iv    interval
		index string
		q     *qData
		where string
	}
	var searches []search
	var prevRet uint64
	for oi := range res.Plan.Incs[0].Ops {
		op := &res.Plan.Incs[0].Ops[oi]
		if op.Kind != "par" {
			e := ir.Get(fmt.Sprint(oi))
			if e == nil {
				break
			}
			siv := interval{inv: 2*prevRet + 1, ret: 2 * e.Seq}
			prevRet = e.Seq
			switch op.Kind {
			case "ingest":
				mm := newLogModel()
				mm.applyIngest(op, e)
				for _, ev := range mm.ByIndex[op.Index] {
					m.ByIndex[op.Index] = append(m.ByIndex[op.Index], ev)
					m.ByVID[ev.VID] = ev
					ingestIv[ev.VID] = siv
				}
			case "flush", "rotate":
				flushes = append(flushes, siv)
				m.markFlushed()
			case "query":
				if e.Err != "" {
					vs = append(vs, Violation{Sig: prop + ":final-query-error", Msg: e.Err})
					continue
				}
				q, err := decodeQ(e)
				if err != nil {
					continue
				}
				// (d) after quiescence the stored contents equal the sequential execution of the same ingests
				for _, v := range checkMatchAll(prop, m, op.Index, q, "after quiescence") {
					if strings.HasSuffix(v.Sig, "numeric-string-returned-as-different-number-text") {
						continue
					}
					v.Sig = strings.Replace(v.Sig, prop+":", prop+":final-", 1)
					vs = append(vs, v)
				}
			}
			continue
		}
		if pe := ir.Get(fmt.Sprint(oi)); pe != nil {
			prevRet = pe.Seq
		}
		for c := range op.Par {
			for i := range op.Par[c] {
				o := &op.Par[c][i]
				id := fmt.Sprintf("%d.%d.%d", oi, c, i)
				inv, ret := ir.Invoke(id), ir.Get(id)
				if inv == nil {
					continue
				}
				iv := interval{inv: 2 * inv.Seq, ret: ^uint64(0)}
				if ret != nil {
					iv.ret = 2 * ret.Seq
				}
				switch o.Kind {
				case "ingest":
					if ret != nil {
						mm := newLogModel()
						mm.applyIngest(o, ret)
						for _, ev := range mm.ByIndex[o.Index] {
							m.ByIndex[o.Index] = append(m.ByIndex[o.Index], ev)
							m.ByVID[ev.VID] = ev
							ingestIv[ev.VID] = iv
						}
					} else {
						for _, raw := range o.Events {
							if ev, err := parseEvent(raw); err == nil {
								m.ByVID[ev.VID] = ev
								ingestIv[ev.VID] = iv
							}
						}
					}
				case "flush", "rotate":
					if ret != nil {
						flushes = append(flushes, iv)
					}
				case "query":
					if ret == nil {
						continue
					}
					if ret.Err != "" {
						vs = append(vs, Violation{Sig: prop + ":query-error-during-concurrency", Msg: id + ": " + ret.Err})
						continue
					}
					q, err := decodeQ(ret)
					if err == nil {
						searches = append(searches, search{iv: iv, index: o.Index, q: q, where: "search " + id})
					}
				}
			}
		}
	}
	for _, s := range searches {
		seen := map[string]int{}
		cols := colInfos(m.ByIndex[s.index])
		for _, rec := range s.q.Records {
			vid, _ := rec["vid"].(string)
			ev := m.ByVID[vid]
			if ev == nil {
				vs = append(vs, Violation{Sig: prop + ":search-returned-unknown-event", Msg: fmt.Sprintf("%s: vid %q", s.where, vid)})
				continue
			}
			seen[vid]++
			if seen[vid] == 2 {
				vs = append(vs, Violation{Sig: prop + ":event-returned-twice", Msg: fmt.Sprintf("%s [%d,%d]: vid %s twice", s.where, s.iv.inv, s.iv.ret, vid)})
			}
			if iv, ok := ingestIv[vid]; ok && iv.inv > s.iv.ret {
				vs = append(vs, Violation{Sig: prop + ":event-from-the-future", Msg: fmt.Sprintf("%s returned %s whose ingest started later", s.where, vid)})
			}
			classes, detail := cmpRecord(ev, rec, cols)
			for _, c := range classes {
				if c == "numeric-string-returned-as-different-number-text" {
					continue
				}
				vs = append(vs, Violation{Sig: prop + ":content-" + c, Msg: s.where + ": " + detail})
			}
		}
		// (c) acked before a flush F started, F returned before S was invoked  =>  in S
		missing := 0
		first := ""
		for _, ev := range m.ByIndex[s.index] {
			iv := ingestIv[ev.VID]
			must := false
			for _, f := range flushes {
				if iv.ret < f.inv && f.ret < s.iv.inv {
					must = true
					break
				}
			}
			if must && seen[ev.VID] == 0 {
				missing++
				if first == "" {
					first = ev.VID
				}
			}
		}
		if missing > 0 {
			vs = append(vs, Violation{Sig: prop + ":flushed-event-not-returned" + rotationRaceSite(ir), Msg: fmt.Sprintf("%s [%d,%d] on %s: %d events whose flush completed before the search began are missing (first %s); %d returned", s.where, s.iv.inv, s.iv.ret, s.index, missing, first, len(s.q.Records))})
		}
	}
	return dedupV(vs)
}

// deadlockSig: the sorted set of lock-wait sites in a deadlock dump.
func deadlockSig(dump string) string {
	var sites []string
	for _, l := range strings.Split(dump, "\n") {
		if strings.Contains(l, "blocked-lock") {
			if i := strings.Index(l, "waits-on="); i >= 0 {
				w := l[i+9:]
				if j := strings.IndexByte(w, '('); j > 0 {
					w = w[:j]
				}
				sites = append(sites, w)
			}
		}
	}
	sort.Strings(sites)
	return strings.Join(sites, ",")
}

func init() {
	register(&Check{
		ID:    "C11",
		Level: "exploration",
		Rule: "each case is one seeded schedule of a concurrent workload (2-4 ingesters on 1-2 indexes, a flusher/rotator, 1-3 searchers, in one history in three the node's memory limiter evicting open-segment metadata (at the flusher's instants in half of those), think times around the 5 s idle-flush period, the real idle/max-wait flush loops on the fake clock) on the real node; the interleaving is the PRNG-driven choice sequence of the baton scheduler (pre-emption probability 0-30% per yield point, GOMAXPROCS knob 1-16). Oracle: interval rules (a)-(d) of DESIGN §4 C11 over invoke/return sequence numbers, plus deadlock (wait-for cycle), hang (step/sim-time budget) and panic detection. distinct = distinct interleaving fingerprints (hash of the decision log); non-trivial = at least one context switch forced by the PRNG or a search overlapping a flush",
		Run: func(c *Ctx) {
			n := 250
			if !c.Quick() {
				n = 20000
			}
			c.Explore(n, func(r *rand.Rand, i int) *plan.Plan { return genConcurrent(r, c.Quick()) }, func(res *RunResult) (string, bool, any) {
				fp := fingerprintOf(res)
				var st struct {
					Switches  uint64 `json:"switches"`
					Decisions uint64 `json:"decisions"`
					Tasks     uint64 `json:"tasks"`
				}
				if end := res.Incs[0].End(); end != nil {
					_ = json.Unmarshal(end["sched"], &st)
				}
				c.Probe("decisions", int(st.Decisions))
				c.Probe("context_switches", int(st.Switches))
				overlap := 0
				// probe: a search overlapped a flush/rotate
				ir := res.Incs[0]
				var fl, se []interval
				for _, e := range ir.Entries {
					if e.Phase != "invoke" {
						continue
					}
					ret := ir.Get(e.Idx)
					if ret == nil {
						continue
					}
					iv := interval{e.Seq, ret.Seq}
					switch e.Kind {
					case "flush", "rotate":
						fl = append(fl, iv)
					case "query":
						se = append(se, iv)
					}
				}
				for _, s := range se {
					for _, f := range fl {
						if s.inv < f.ret && f.inv < s.ret {
							overlap++
						}
					}
				}
				c.Probe("search_overlapped_flush_or_rotate", overlap)
				sample := map[string]any{"fingerprint": fp, "knobs": res.Plan.Knobs, "shape": opKinds(res.Plan), "decisions": st.Decisions, "switches": st.Switches, "tasks": st.Tasks}
				return fp, res.Plan.Knobs.PreemptPermille > 0 || overlap > 0, sample
			})
		},
		Oracle: func(res *RunResult) []Violation { return concurrentOracle("C11", res) },
		Assumptions: []string{
			"tasks are serialised by the baton scheduler: unsynchronised accesses to memory other than through locks/channels are not observed (the data-race half of the statement is decided only for lock-order deadlocks and for visible effects)",
			"must-visibility is asserted only for explicit flush/rotate operations; timer-driven flushes can only add visibility",
		},
		Components: stdComponents,
	})
}

func opKinds(p *plan.Plan) string {
	var sb strings.Builder
	for _, op := range p.Incs[0].Ops {
		if op.Kind == "par" {
			fmt.Fprintf(&sb, "par(%d clients)", len(op.Par))
		} else {
			sb.WriteString(op.Kind[:1])
		}
		sb.WriteString(" ")
	}
	return sb.String()
}

// rotationRaceSite names the place where a search lost a segment to a concurrent rotation, from the node's own
// error log (the response carries no error): part of the signature, so that one recorded site does not hide
// another way of losing flushed events.
func rotationRaceSite(ir *IncResult) string {
	end := ir.End()
	if end == nil {
		return ""
	}
	var logs map[string]int
	_ = json.Unmarshal(end["error_logs"], &logs)
	switch {
	case logs["CheckMicroIndicesForUnrotated"] > 0:
		return ":segment-rotated-before-unrotated-microindex-check"
	case logs["applyAggregationsToResult"] > 0 || logs["RawSearchPQMResults"] > 0:
		return ":segment-rotated-before-column-readers-opened"
	}
	return ""
}

var lineNoRe = regexp.MustCompile(`:[0-9]+`)

// spinningTasks: the tasks that were runnable when the decision budget ran out, by task name without
// line numbers (they never block: the loop that burns the budget).
func spinningTasks(dump string) string {
	seen := map[string]bool{}
	for _, ln := range strings.Split(dump, "\n") {
		if !strings.HasPrefix(ln, "task ") || !strings.Contains(ln, "state=runnable") {
			continue
		}
		name, site := "", ""
		if i := strings.IndexByte(ln, '"'); i >= 0 {
			if j := strings.IndexByte(ln[i+1:], '"'); j >= 0 {
				name = ln[i+1 : i+1+j]
			}
		}
		if i := strings.Index(ln, "site="); i >= 0 {
			site = strings.Fields(ln[i+5:] + " ")[0]
		}
		_ = site // the site at which the budget happened to run out varies along the loop: the task is the identity
		seen[lineNoRe.ReplaceAllString(name, "")] = true
	}
	var out []string
	for k := range seen {
		out = append(out, k)
	}
	sort.Strings(out)
	return strings.Join(out, ",")
}
