package main

import (
	"encoding/json"
	"fmt"
	"math/rand/v2"
	"sort"
	"strings"

	"simlens/plan"
)

// ---- shared: log histories -------------------------------------------------------------------------

type histOpts struct {
	families   []string
	maxIdx     int
	minBatches int
	maxBatches int
	maxEvents  int // per batch
	restarts   bool
	queries    func(index string, nEvents int) []plan.Op // queries issued after each flush-completing op
	finalOnly  bool
	// noColumnDropout: batches keep all their columns. C04 sets it: a measure field absent from some events is the
	// recorded sparse-measure finding, which C04 provokes through the designated sparse field `sp` only (so that
	// it is attributed to that finding and not reported afresh for every other field).
	noColumnDropout bool
}

var boolT, boolF = true, false

func swarmKnobs(r *rand.Rand) plan.Knobs {
	k := plan.Knobs{Sched: true}
	k.Procs = []int{1, 2, 4, 8}[r.IntN(4)]
	switch r.IntN(4) {
	case 0:
		k.CardLimit = 3
	case 1:
		k.CardLimit = 12
	}
	switch r.IntN(4) {
	case 0:
		k.MaxSegFileSize = 1 // every flush rotates
	case 1:
		k.MaxSegFileSize = 30_000
	}
	if r.IntN(3) == 0 {
		k.PQS = &boolF
	}
	if r.IntN(3) == 0 {
		k.Aggs = &boolF
	}
	if r.IntN(8) == 0 {
		k.LowMem = true
	}
	return k
}

const qStart = simEpochMs - 86_400_000
const qEnd = simEpochMs + 30*86_400_000

func matchAll(index string, n int) plan.Op {
	return plan.Op{Kind: "query", Index: index, Text: "*", Start: qStart, End: qEnd, Size: n + 50, Args: map[string]any{"includeNulls": true}}
}

// genHistory builds a plan: ingest batches into 1..maxIdx indexes, separated by flush / rotate / timer /
// restart operations; after every flush-completing operation the queries of o.queries are issued.
func genHistory(r *rand.Rand, o histOpts) *plan.Plan {
	p := &plan.Plan{Knobs: swarmKnobs(r), Params: map[string]any{}}
	nIdx := 1 + r.IntN(o.maxIdx)
	type idx struct {
		name string
		gen  *EvGen
		n    int
	}
	var idxs []*idx
	for i := 0; i < nIdx; i++ {
		fam := o.families[r.IntN(len(o.families))]
		card := []int{2, 3, 5, 12, 14, 40}[r.IntN(6)]
		idxs = append(idxs, &idx{name: fmt.Sprintf("ix%d%s", i, fam), gen: NewEvGen(r, fam, fmt.Sprintf("i%d-", i), card)})
	}
	inc := plan.Incarnation{Boot: "full"}
	nb := o.minBatches + r.IntN(o.maxBatches-o.minBatches+1)
	tsBase := int64(simEpochMs)
	emitQueries := func() {
		if o.finalOnly {
			return
		}
		for _, ix := range idxs {
			if ix.n > 0 {
				inc.Ops = append(inc.Ops, o.queries(ix.name, ix.n)...)
			}
		}
	}
	for b := 0; b < nb; b++ {
		ix := idxs[r.IntN(len(idxs))]
		ne := 1 + r.IntN(o.maxEvents)
		if r.IntN(3) == 0 {
			ne = 1 + r.IntN(5)
		}
		var evs []json.RawMessage
		for j := 0; j < ne; j++ {
			// out of order, ties, spread
			var ts int64
			switch r.IntN(4) {
			case 0:
				ts = tsBase + int64(r.IntN(10)) // ties / very close
			case 1:
				ts = tsBase - int64(r.IntN(3_600_000))
			default:
				ts = tsBase + int64(r.IntN(3_600_000))
			}
			e := ix.gen.Next(ts)
			evs = append(evs, e.Raw)
		}
		ix.n += ne
		if r.IntN(3) == 0 && !o.noColumnDropout {
			evs = dropColumnsFromBatch(r, evs)
		}
		inc.Ops = append(inc.Ops, plan.Op{Kind: "ingest", Index: ix.name, Events: evs})
		switch x := r.IntN(10); {
		case x < 4:
			inc.Ops = append(inc.Ops, plan.Op{Kind: "flush"})
			emitQueries()
		case x < 6:
			inc.Ops = append(inc.Ops, plan.Op{Kind: "rotate"})
			emitQueries()
		case x < 7:
			// let the idle timer do it: the idle interval is 5 s, the loop polls every 5 s
			inc.Ops = append(inc.Ops, plan.Op{Kind: "advance", DurMs: 11_000})
			emitQueries()
		case x < 8 && o.restarts:
			inc.Ops = append(inc.Ops, plan.Op{Kind: "shutdown"})
			p.Incs = append(p.Incs, inc)
			inc = plan.Incarnation{Boot: "full"}
			emitQueries()
		default:
			// no flush: next batch lands in the same buffer
		}
	}
	inc.Ops = append(inc.Ops, plan.Op{Kind: "flush"})
	for _, ix := range idxs {
		if ix.n > 0 {
			inc.Ops = append(inc.Ops, o.queries(ix.name, ix.n)...)
		}
	}
	p.Incs = append(p.Incs, inc)
	for i := range p.Incs {
		p.Incs[i].SchedSeed = r.Uint64()>>11 | 1
	}
	return p
}

// parseEvent rebuilds the model event from the raw JSON in a plan (the generator is not re-run; the
// oracle derives the expected flattening from the event text itself, so shrunk plans stay checkable).
func parseEvent(raw json.RawMessage) (*Event, error) {
	dec := json.NewDecoder(strings.NewReader(string(raw)))
	dec.UseNumber()
	var m map[string]interface{}
	if err := dec.Decode(&m); err != nil {
		return nil, err
	}
	e := &Event{Flat: map[string]Val{}, Raw: raw}
	var walk func(prefix string, v interface{})
	walk = func(prefix string, v interface{}) {
		switch x := v.(type) {
		case map[string]interface{}:
			for k, vv := range x {
				key := k
				if prefix != "" {
					key = prefix + "." + k
				}
				walk(key, vv)
			}
		case []interface{}:
			for i, vv := range x {
				walk(fmt.Sprintf("%s.%d", prefix, i), vv)
			}
		case string:
			e.Flat[prefix] = Val{K: 's', S: x}
		case json.Number:
			e.Flat[prefix] = numTok(x.String())
		case bool:
			e.Flat[prefix] = Val{K: 'b', B: x}
		case nil:
		}
	}
	for k, v := range m {
		if k == "timestamp" {
			if n, ok := v.(json.Number); ok {
				e.TS, _ = n.Int64()
			}
			continue
		}
		walk(k, v)
	}
	if v, ok := e.Flat["vid"]; ok {
		e.VID = v.S
	}
	return e, nil
}

// LogModel is the reference event store: per index the accepted events, in ingest order.
type LogModel struct {
	ByIndex map[string][]*Event
	ByVID   map[string]*Event
	Flushed map[string]int // index -> number of events covered by a completed flush
}

func newLogModel() *LogModel {
	return &LogModel{ByIndex: map[string][]*Event{}, ByVID: map[string]*Event{}, Flushed: map[string]int{}}
}

// applyIngest adds the events of an acknowledged ingest op (items with status 201) to the model.
func (m *LogModel) applyIngest(op *plan.Op, e *plan.Entry) (accepted, rejected int) {
	var d struct {
		Resp struct {
			Items []map[string]struct {
				Status int `json:"status"`
			} `json:"items"`
		} `json:"resp"`
	}
	_ = json.Unmarshal(e.Data, &d)
	for i, raw := range op.Events {
		ok := i < len(d.Resp.Items)
		if ok {
			st := 0
			for _, v := range d.Resp.Items[i] {
				st = v.Status
			}
			ok = st == 201
		}
		if !ok {
			rejected++
			continue
		}
		ev, err := parseEvent(raw)
		if err != nil {
			rejected++
			continue
		}
		m.ByIndex[op.Index] = append(m.ByIndex[op.Index], ev)
		m.ByVID[ev.VID] = ev
		accepted++
	}
	return
}

func (m *LogModel) markFlushed() {
	for k, v := range m.ByIndex {
		m.Flushed[k] = len(v)
	}
}

type qData struct {
	Records      []map[string]interface{} `json:"records"`
	TotalMatched interface{}              `json:"total_matched"`
	Measure      []struct {
		G []string               `json:"g"`
		M map[string]interface{} `json:"m"`
	} `json:"measure"`
	MeasureFuncs []string `json:"measure_funcs"`
	GroupByCols  []string `json:"group_by_cols"`
	AllColumns   []string `json:"all_columns"`
	Errors       []string `json:"errors"`
	Qtype        string   `json:"qtype"`
	Nil          bool     `json:"nil"`
}

func decodeQ(e *plan.Entry) (*qData, error) {
	var q qData
	dec := json.NewDecoder(strings.NewReader(string(e.Data)))
	dec.UseNumber()
	if err := dec.Decode(&q); err != nil {
		return nil, err
	}
	return &q, nil
}

// checkMatchAll compares a match-all result with the flushed part of the model of one index.
func checkMatchAll(prop string, m *LogModel, index string, q *qData, where string) []Violation {
	var vs []Violation
	exp := m.ByIndex[index][:m.Flushed[index]]
	cols := colInfos(m.ByIndex[index])
	seen := map[string]int{}
	for _, rec := range q.Records {
		vid, _ := rec["vid"].(string)
		ev := m.ByVID[vid]
		if ev == nil {
			vs = append(vs, Violation{Sig: prop + ":event-invented", Msg: fmt.Sprintf("%s: record with unknown vid %q: %v", where, vid, trimTo(fmt.Sprint(rec), 300))})
			continue
		}
		seen[vid]++
		if seen[vid] == 2 {
			vs = append(vs, Violation{Sig: prop + ":event-duplicated", Msg: fmt.Sprintf("%s: vid %s returned more than once", where, vid)})
		}
		classes, detail := cmpRecord(ev, rec, cols)
		for _, c := range classes {
			vs = append(vs, Violation{Sig: prop + ":" + c, Msg: where + ": " + detail})
		}
	}
	missing := 0
	var firstMissing string
	for _, ev := range exp {
		if seen[ev.VID] == 0 {
			missing++
			if firstMissing == "" {
				firstMissing = ev.VID
			}
		}
	}
	if missing > 0 {
		vs = append(vs, Violation{Sig: prop + ":event-dropped", Msg: fmt.Sprintf("%s: %d of %d flushed events of %s not returned (first %s); returned %d", where, missing, len(exp), index, firstMissing, len(q.Records))})
	}
	return dedupV(vs)
}

func dedupV(vs []Violation) []Violation {
	seen := map[string]bool{}
	var out []Violation
	for _, v := range vs {
		if !seen[v.Sig] {
			seen[v.Sig] = true
			out = append(out, v)
		}
	}
	sort.Slice(out, func(i, j int) bool { return out[i].Sig < out[j].Sig })
	return out
}

// walkHistory replays a log-history plan against its journal, maintaining the model and calling onQuery
// for every answered query. It reports crashes/panics/errors generically.
func walkHistory(prop string, res *RunResult, onQuery func(m *LogModel, op *plan.Op, q *qData, where string) []Violation) ([]Violation, *LogModel) {
	m := newLogModel()
	var vs []Violation
	for ii, inc := range res.Plan.Incs {
		if ii >= len(res.Incs) {
			break
		}
		ir := res.Incs[ii]
		if ab := ir.Abnormal(); ab != "" && ab != "harness" && ab != "wall-timeout" {
			site := ir.PanicSite()
			if ab == "hang" {
				site = ir.HangKind()
			}
			// the operation in flight when the process died: the first one without a journal entry
			suffix := ""
			for oi := range inc.Ops {
				if ir.Get(fmt.Sprint(oi)) == nil {
					suffix = inflightSuffix(prop, &inc.Ops[oi])
					break
				}
			}
			vs = append(vs, Violation{Sig: prop + ":node-" + ab + ":" + site + suffix, Msg: fmt.Sprintf("incarnation %d ended abnormally (%s): %s", ii, ab, trimTo(ir.Stderr, 1500))})
			// C01 is a fault-free property: a process that hung or died (reported above) did not shut down
			// gracefully, so "everything accepted before is flushed" does not hold for what follows
			return vs, m
		}
		if b := ir.Get("boot"); b != nil && b.Err != "" {
			vs = append(vs, Violation{Sig: prop + ":boot-failed", Msg: b.Err})
		}
		if ii > 0 {
			// a new incarnation follows a graceful shutdown: everything accepted before is flushed
			m.markFlushed()
		}
		for oi := range inc.Ops {
			op := &inc.Ops[oi]
			e := ir.Get(fmt.Sprint(oi))
			if e == nil {
				break // the incarnation ended before this op returned
			}
			where := fmt.Sprintf("inc %d op %d (%s)", ii, oi, op.Kind)
			switch op.Kind {
			case "ingest":
				m.applyIngest(op, e)
			case "flush", "rotate", "shutdown":
				m.markFlushed()
			case "advance":
				if op.DurMs >= 11_000 {
					m.markFlushed() // idle flush timer (5 s idle, 5 s poll) has fired
				}
			case "query":
				if e.Err != "" {
					vs = append(vs, Violation{Sig: prop + ":query-error", Msg: where + ": " + op.Text + ": " + e.Err})
					continue
				}
				q, err := decodeQ(e)
				if err != nil {
					vs = append(vs, Violation{Sig: prop + ":journal-decode", Msg: err.Error()})
					continue
				}
				vs = append(vs, onQuery(m, op, q, where)...)
			}
		}
	}
	return dedupV(vs), m
}

func histShape(res *RunResult) (key string, nontrivial bool, sample any) {
	var sb strings.Builder
	blocks := 0
	nEv := 0
	for _, inc := range res.Plan.Incs {
		for _, op := range inc.Ops {
			switch op.Kind {
			case "ingest":
				fmt.Fprintf(&sb, "i%d", len(op.Events))
				nEv += len(op.Events)
			case "flush":
				sb.WriteString("F")
				blocks++
			case "rotate":
				sb.WriteString("R")
				blocks++
			case "advance":
				sb.WriteString("T")
				blocks++
			case "shutdown":
				sb.WriteString("S")
				blocks++
			case "query":
				sb.WriteString("q")
			}
		}
		sb.WriteString("|")
	}
	k := res.Plan.Knobs
	fmt.Fprintf(&sb, "p%d c%d m%d", k.Procs, k.CardLimit, k.MaxSegFileSize)
	sample = map[string]any{"shape": sb.String(), "events": nEv, "incarnations": len(res.Plan.Incs), "knobs": k, "first_event": firstEvent(res.Plan)}
	return sb.String(), blocks >= 2, sample
}

func firstEvent(p *plan.Plan) string {
	for _, inc := range p.Incs {
		for _, op := range inc.Ops {
			if len(op.Events) > 0 {
				return trimTo(string(op.Events[0]), 300)
			}
		}
	}
	return ""
}

// ---- C01 --------------------------------------------------------------------------------------------

func init() {
	register(&Check{
		ID:    "C01",
		Level: "exploration",
		Rule:  "each case is one seeded history (1-3 indexes; 3-12 ingest batches of generated JSON events of 7 schema families; flush / forced rotation / idle-timer flush / graceful restart between them; swarm knobs: GOMAXPROCS seen by the flush code, dictionary cardinality limit, max segment size, PQS, agile tree, low-memory) executed on the real node under the seeded scheduler; after every flush-completing step a match-all query per index is compared with the event-set model. distinct = distinct (operation shape, knobs) strings; non-trivial = at least two flushed blocks",
		Run: func(c *Ctx) {
			n := 120
			if !c.Quick() {
				n = 5000
			}
			o := histOpts{families: families, maxIdx: 3, minBatches: 3, maxBatches: 12, maxEvents: 60, restarts: true, queries: func(ix string, n int) []plan.Op { return []plan.Op{matchAll(ix, n)} }}
			if !c.Quick() {
				o.maxEvents = 400
			}
			c.Explore(n, func(r *rand.Rand, i int) *plan.Plan { return genHistory(r, o) }, histShape)
		},
		Oracle: func(res *RunResult) []Violation {
			vs, _ := walkHistory("C01", res, func(m *LogModel, op *plan.Op, q *qData, where string) []Violation {
				return checkMatchAll("C01", m, op.Index, q, where)
			})
			return vs
		},
		Assumptions: []string{
			"flattening convention parent.child / parent.<index> taken from the packer's documented behaviour",
			"events carry explicit millisecond timestamps and a unique vid field",
			"duplicate keys, keys containing dots and integers above int64 are not generated",
		},
		Components: stdComponents,
	})
}

var stdComponents = map[string]string{
	"writer/reader/query engine/parsers/startup sequence/http router": "real (rewritten only by the build-time seam rules)",
	"clock":                              "synctest fake clock",
	"goroutine scheduling":               "simrt seeded scheduler (baton)",
	"file system":                        "real scratch directory behind simfs",
	"network":                            "in-memory listener, simnet outbound stub",
	"telemetry (ssa)":                    "stub (empty body)",
	"blob store / S3 / enterprise hooks": "not run",
	"process crash":                      "real _exit of a real child process",
}

// dropColumnsFromBatch removes one to three top-level fields (never the id or the timestamp) from every event of
// a batch: a column that earlier blocks of the segment hold is then absent from a whole later block - not merely
// sparse inside it.
func dropColumnsFromBatch(r *rand.Rand, evs []json.RawMessage) []json.RawMessage {
	type kv struct {
		k string
		v json.RawMessage
	}
	parse := func(raw json.RawMessage) []kv {
		dec := json.NewDecoder(strings.NewReader(string(raw)))
		if t, err := dec.Token(); err != nil || t != json.Delim('{') {
			return nil
		}
		var out []kv
		for dec.More() {
			t, err := dec.Token()
			if err != nil {
				return nil
			}
			k, _ := t.(string)
			var v json.RawMessage
			if err := dec.Decode(&v); err != nil {
				return nil
			}
			out = append(out, kv{k, v})
		}
		return out
	}
	if len(evs) == 0 {
		return evs
	}
	first := parse(evs[0])
	var cands []string
	for _, f := range first {
		if f.k != "vid" && f.k != "timestamp" {
			cands = append(cands, f.k)
		}
	}
	if len(cands) == 0 {
		return evs
	}
	drop := map[string]bool{}
	for i := 0; i < 1+r.IntN(3); i++ {
		drop[cands[r.IntN(len(cands))]] = true
	}
	out := make([]json.RawMessage, 0, len(evs))
	for _, raw := range evs {
		fs := parse(raw)
		if fs == nil {
			out = append(out, raw)
			continue
		}
		var sb strings.Builder
		sb.WriteByte('{')
		n := 0
		for _, f := range fs {
			if drop[f.k] {
				continue
			}
			if n > 0 {
				sb.WriteByte(',')
			}
			n++
			sb.WriteString(jsonStr(f.k))
			sb.WriteByte(':')
			sb.Write(f.v)
		}
		sb.WriteByte('}')
		out = append(out, json.RawMessage(sb.String()))
	}
	return out
}

// inflightSuffix names the recorded shape of the query that was running when a node died, where one exists: C04
// queries that group by the designated sparse field `sg` (the sparse-group-key finding also shows as a malformed
// group key that ConvertGroupByKeyFromBytes slices out of range).
func inflightSuffix(prop string, op *plan.Op) string {
	if prop != "C04" || op.Kind != "query" {
		return ""
	}
	agg, _ := op.Args["agg"].(map[string]any)
	by, _ := agg["by"].([]any)
	for _, b := range by {
		if b == "sg" {
			return ":sparse-group-key"
		}
	}
	return ""
}
