package main

import (
	"encoding/json"
	"fmt"
	"math/rand/v2"
	"sort"
	"strings"

	"simlens/plan"
)

// BulkAction is the model of one action of a generated bulk body.
type BulkAction struct {
	Kind   string `json:"kind"` // ok | bad-json-doc | oversize | update | delete | unknown | missing-doc
	Index  string `json:"index"`
	VID    string `json:"vid,omitempty"`
	Expect string `json:"expect"` // created | failed
}

func genBulkBody(r *rand.Rand, n int, prefix string, withStoreFault bool) (string, []BulkAction) {
	var sb strings.Builder
	var acts []BulkAction
	idxs := []string{"bka", "bkb", "bkc"}[:1+r.IntN(3)]
	// in one request out of four the document ids need a JSON escape (written `p\/12`, meaning p/12): valid
	// documents whose short escaped strings go through the parser's un-escaping path, several per request
	escaped := !withStoreFault && r.IntN(4) == 0
	for i := 0; i < n; i++ {
		ix := idxs[r.IntN(len(idxs))]
		vid := fmt.Sprintf("%s%d", prefix, i)
		if escaped {
			vid = fmt.Sprintf("%s/%d", prefix, i)
		}
		realVid := vid
		vid = strings.ReplaceAll(vid, "/", `\/`) // the JSON spelling; BulkAction carries the real id
		verb := []string{"index", "create"}[r.IntN(2)]
		action := fmt.Sprintf(`{"%s":{"_index":"%s"}}`, verb, ix)
		doc := fmt.Sprintf(`{"vid":"%s","timestamp":%d,"n":%d,"msg":"m %d"}`, vid, simEpochMs+int64(r.IntN(3_600_000)), i, r.IntN(100))
		x := r.IntN(100)
		if withStoreFault {
			x = 0
			// large documents so that the request fills the 2 MB buffer and flushes in-line
			doc = fmt.Sprintf(`{"vid":"%s","timestamp":%d,"n":%d,"pad":"%s"}`, vid, simEpochMs+int64(r.IntN(3_600_000)), i, strings.Repeat("p", 40_000+r.IntN(15_000)))
		}
		switch {
		case x < 62:
			sb.WriteString(action + "\n" + doc + "\n")
			acts = append(acts, BulkAction{Kind: "ok", Index: ix, VID: realVid, Expect: "created"})
		case x < 72:
			sb.WriteString(action + "\n" + `{"vid":"` + vid + `","broken": tru` + "\n")
			acts = append(acts, BulkAction{Kind: "bad-json-doc", Index: ix, VID: realVid, Expect: "failed"})
		case x < 78:
			big := fmt.Sprintf(`{"vid":"%s","timestamp":%d,"pad":"%s"}`, vid, simEpochMs, strings.Repeat("x", 64_000+r.IntN(3000)))
			sb.WriteString(action + "\n" + big + "\n")
			acts = append(acts, BulkAction{Kind: "oversize", Index: ix, VID: realVid, Expect: "failed"})
		case x < 84:
			sb.WriteString(fmt.Sprintf(`{"update":{"_index":"%s","_id":"1"}}`, ix) + "\n" + `{"doc":{"vid":"` + vid + `"}}` + "\n")
			acts = append(acts, BulkAction{Kind: "update", Index: ix, VID: realVid, Expect: "failed"})
		case x < 90:
			sb.WriteString(fmt.Sprintf(`{"delete":{"_index":"%s","_id":"1"}}`, ix) + "\n")
			acts = append(acts, BulkAction{Kind: "delete", Index: ix, Expect: "failed"})
		case x < 95:
			sb.WriteString(fmt.Sprintf(`{"frobnicate":{"_index":"%s"}}`, ix) + "\n")
			acts = append(acts, BulkAction{Kind: "unknown", Index: ix, Expect: "failed"})
		default:
			sb.WriteString(action + "\n" + doc + "\n")
			acts = append(acts, BulkAction{Kind: "ok", Index: ix, VID: realVid, Expect: "created"})
		}
	}
	body := sb.String()
	return body, acts
}

func genBulkPlan(r *rand.Rand, faulty bool) *plan.Plan {
	k := plan.Knobs{Sched: true, Procs: []int{1, 2, 4}[r.IntN(3)], PQS: &boolF}
	p := &plan.Plan{Knobs: k, Params: map[string]any{"faulty": faulty}}
	inc := plan.Incarnation{Boot: "full", SchedSeed: r.Uint64()>>11 | 1}
	nreq := 1 + r.IntN(3)
	idxSet := map[string]bool{}
	for q := 0; q < nreq; q++ {
		n := 1 + r.IntN(40)
		if faulty {
			n = 45 + r.IntN(20)
		}
		body, acts := genBulkBody(r, n, fmt.Sprintf("r%d-", q), faulty)
		variant := "plain"
		if !faulty {
			switch r.IntN(6) {
			case 0:
				body = strings.TrimSuffix(body, "\n") // no trailing newline
				variant = "no-trailing-newline"
			case 1:
				// the last action has no document line at all
				ix := "bka"
				body += fmt.Sprintf(`{"index":{"_index":"%s"}}`, ix) + "\n"
				acts = append(acts, BulkAction{Kind: "missing-doc", Index: ix, Expect: "failed"})
				variant = "last-action-without-document"
			}
		}
		for _, a := range acts {
			idxSet[a.Index] = true
		}
		ab, _ := json.Marshal(acts)
		var av []any
		_ = json.Unmarshal(ab, &av)
		inc.Ops = append(inc.Ops, plan.Op{Kind: "http", Body: body, Args: map[string]any{"server": "ingest", "method": "POST", "path": "/elastic/_bulk", "actions": av, "variant": variant}})
		if faulty {
			// a store fault landing inside the in-line flush this request triggers
			kind := []string{"fail", "short", "full_after"}[r.IntN(3)]
			f := plan.Fault{Kind: kind, Path: []string{".csg", ".bsu", ".sfm", ".cmi", ".sst"}[r.IntN(5)], At: 1 + r.IntN(6), Err: []string{"EIO", "ENOSPC"}[r.IntN(2)], N: r.IntN(200)}
			inc.Faults = append(inc.Faults, f)
		}
		inc.Ops = append(inc.Ops, plan.Op{Kind: "flush"})
	}
	var names []string
	for ix := range idxSet {
		names = append(names, ix)
	}
	sort.Strings(names)
	for _, ix := range names {
		inc.Ops = append(inc.Ops, plan.Op{Kind: "query", Index: ix, Text: "*", Start: qStart, End: qEnd, Size: 3000, Args: map[string]any{"includeNulls": true}})
	}
	p.Incs = []plan.Incarnation{inc}
	return p
}

func bulkOracle(prop string, res *RunResult) []Violation {
	var vs []Violation
	if len(res.Incs) == 0 {
		return nil
	}
	ir := res.Incs[0]
	faulty := res.Plan.Params["faulty"] == true
	if ab := ir.Abnormal(); ab != "" && ab != "harness" && ab != "wall-timeout" {
		site := ir.PanicSite()
		if ab == "hang" {
			site = ir.HangKind()
		}
		return []Violation{{Sig: prop + ":node-" + ab + ":" + site, Msg: trimTo(ir.Stderr, 1500)}}
	}
	reported := map[string]string{} // vid -> created|failed as reported
	kindOf := map[string]string{}
	found := map[string]int{}
	for oi := range res.Plan.Incs[0].Ops {
		op := &res.Plan.Incs[0].Ops[oi]
		e := ir.Get(fmt.Sprint(oi))
		if e == nil {
			break
		}
		switch op.Kind {
		case "http":
			ab, _ := json.Marshal(op.Args["actions"])
			var acts []BulkAction
			_ = json.Unmarshal(ab, &acts)
			variant, _ := op.Args["variant"].(string)
			where := fmt.Sprintf("request op %d (%s, %d actions)", oi, variant, len(acts))
			var hr struct {
				Status int    `json:"status"`
				Body   string `json:"body"`
			}
			_ = json.Unmarshal(e.Data, &hr)
			var resp struct {
				Errors *bool                       `json:"errors"`
				Items  []map[string]json.RawMessage `json:"items"`
			}
			if err := json.Unmarshal([]byte(hr.Body), &resp); err != nil || resp.Errors == nil {
				allFail := true
				for _, a := range acts {
					if a.Expect == "created" {
						allFail = false
					}
				}
				if allFail {
					for _, a := range acts {
						if a.VID != "" {
							reported[a.VID] = "failed"
							kindOf[a.VID] = a.Kind
						}
					}
					continue // a request in which nothing can succeed may be refused as a whole
				}
				if faulty {
					for _, a := range acts {
						if a.VID != "" {
							reported[a.VID] = "failed"
							kindOf[a.VID] = a.Kind
						}
					}
					continue
				}
				vs = append(vs, Violation{Sig: prop + ":" + variant + ":response-not-a-bulk-response", Msg: fmt.Sprintf("%s: status %d body %s", where, hr.Status, trimTo(hr.Body, 300))})
				continue
			}
			if len(resp.Items) != len(acts) {
				vs = append(vs, Violation{Sig: prop + ":" + variant + ":item-count-differs-from-action-count", Msg: fmt.Sprintf("%s: %d items for %d actions (kinds %v)", where, len(resp.Items), len(acts), actKinds(acts))})
			}
			anyFailed := false
			for i, a := range acts {
				if i >= len(resp.Items) {
					if a.VID != "" {
						reported[a.VID] = "no-item"
						kindOf[a.VID] = a.Kind
					}
					continue
				}
				status := itemStatus(resp.Items[i])
				created := status == 201 || status == 200
				if !created {
					anyFailed = true
				}
				if a.VID != "" {
					if created {
						reported[a.VID] = "created"
					} else {
						reported[a.VID] = "failed"
					}
					kindOf[a.VID] = a.Kind
				}
				if a.Expect == "failed" && created {
					vs = append(vs, Violation{Sig: prop + ":" + a.Kind + ":invalid-action-reported-created", Msg: fmt.Sprintf("%s: item %d (%s) has status %d", where, i, a.Kind, status)})
				}
				if a.Expect == "created" && !created && !faulty {
					prev := "first"
					if i > 0 {
						prev = acts[i-1].Kind
					}
					vs = append(vs, Violation{Sig: prop + ":valid-action-reported-failed:after-" + prev, Msg: fmt.Sprintf("%s: item %d (valid document %s) has status %d; previous action was %s", where, i, a.VID, status, prev)})
				}
			}
			for i := len(acts); i < len(resp.Items); i++ {
				if st := itemStatus(resp.Items[i]); st != 201 && st != 200 {
					anyFailed = true
				}
			}
			if *resp.Errors != anyFailed {
				failedKinds := map[string]bool{}
				for i, a := range acts {
					if i < len(resp.Items) {
						if st := itemStatus(resp.Items[i]); st != 201 && st != 200 {
							failedKinds[fmt.Sprintf("%s/%d", a.Kind, st)] = true
						}
					}
				}
				var fk []string
				for k := range failedKinds {
					fk = append(fk, k)
				}
				sort.Strings(fk)
				vs = append(vs, Violation{Sig: fmt.Sprintf("%s:errors-flag-is-%v-but-items-failed=%v:%s", prop, *resp.Errors, anyFailed, strings.Join(fk, ",")), Msg: fmt.Sprintf("%s: errors=%v, failed items: %v", where, *resp.Errors, fk)})
			}
		case "query":
			if e.Err != "" {
				continue
			}
			q, err := decodeQ(e)
			if err != nil {
				continue
			}
			for _, rec := range q.Records {
				if vid, ok := rec["vid"].(string); ok {
					found[vid]++
				}
			}
		}
	}
	for vid, rep := range reported {
		n := found[vid]
		switch {
		case rep == "created" && n == 0:
			sf := ""
			if faulty {
				sf = ":under-store-fault"
			}
			vs = append(vs, Violation{Sig: prop + ":" + kindOf[vid] + ":reported-created-but-not-searchable" + sf, Msg: fmt.Sprintf("document %s was acknowledged with 201 but is not found after the flush (store faults: %v)", vid, faulty)})
		case rep == "created" && n > 1:
			vs = append(vs, Violation{Sig: prop + ":" + kindOf[vid] + ":stored-more-than-once", Msg: fmt.Sprintf("document %s found %d times", vid, n)})
		case rep != "created" && n > 0:
			vs = append(vs, Violation{Sig: prop + ":" + kindOf[vid] + ":reported-" + rep + "-but-stored", Msg: fmt.Sprintf("document %s (%s) was reported %s but is searchable", vid, kindOf[vid], rep)})
		}
	}
	return dedupV(vs)
}

func itemStatus(it map[string]json.RawMessage) int {
	// {"index":{"status":201}} or {"index":{...error...},"status":400}
	if raw, ok := it["status"]; ok {
		var n int
		if json.Unmarshal(raw, &n) == nil {
			return n
		}
	}
	for _, raw := range it {
		var inner struct {
			Status int `json:"status"`
		}
		if json.Unmarshal(raw, &inner) == nil && inner.Status != 0 {
			return inner.Status
		}
	}
	return 0
}

func actKinds(acts []BulkAction) []string {
	var out []string
	for _, a := range acts {
		out = append(out, a.Kind)
	}
	return out
}

func init() {
	register(&Check{
		ID:    "C15",
		Level: "exploration",
		Rule: "each case is 1-3 generated bulk requests sent through the in-memory HTTP listener to the real /elastic/_bulk route (valid index/create actions; documents with broken JSON; documents over the record size limit; update, delete and unknown actions; several indexes; no trailing newline; a last action without its document line), each followed by a flush, then a match-all per index; a quarter of the cases are large requests (45-65 documents of 40-55 KB, so that the handler flushes the 2 MB buffer in-line) with a store fault (EIO / ENOSPC / short write / disk full) landing on the n-th write of a column, block-summary, micro-index, stats or meta file. Oracle: items vs actions, created <=> searchable exactly once, failed => not stored, errors flag, locality of bad actions; under store faults an item reported failed may be absent, an item reported created must be present. distinct = distinct (action kind sequence, variant, fault); non-trivial = the request mixes valid and invalid actions or a fault fired",
		Run: func(c *Ctx) {
			n := 150
			if !c.Quick() {
				n = 6000
			}
			c.Explore(n, func(r *rand.Rand, i int) *plan.Plan { return genBulkPlan(r, i%4 == 3) }, func(res *RunResult) (string, bool, any) {
				var sb strings.Builder
				mixed := false
				for _, op := range res.Plan.Incs[0].Ops {
					if op.Kind == "http" {
						ab, _ := json.Marshal(op.Args["actions"])
						var acts []BulkAction
						_ = json.Unmarshal(ab, &acts)
						okc, badc := 0, 0
						for _, a := range acts {
							sb.WriteString(a.Kind[:2])
							if a.Expect == "created" {
								okc++
							} else {
								badc++
							}
						}
						if okc > 0 && badc > 0 {
							mixed = true
						}
						fmt.Fprintf(&sb, "/%v|", op.Args["variant"])
					}
				}
				fired := 0
				if end := res.Incs[0].End(); end != nil {
					var f map[string]int
					_ = json.Unmarshal(end["fired"], &f)
					for _, v := range f {
						fired += v
					}
				}
				if fired > 0 {
					c.Probe("store_fault_fired_in_request", 1)
				}
				fmt.Fprintf(&sb, "%v", res.Plan.Incs[0].Faults)
				return sb.String(), mixed || fired > 0, map[string]any{"shape": trimTo(sb.String(), 300), "faults": res.Plan.Incs[0].Faults, "faults_fired": fired}
			})
		},
		Oracle: func(res *RunResult) []Violation { return bulkOracle("C15", res) },
		Assumptions: []string{
			"the seg-store limit (1000 open indexes) is not driven (memory cost)",
			"unknown and delete actions are generated without a following document line, so the pairing of lines is unambiguous",
		},
		Components: stdComponents,
	})
}
