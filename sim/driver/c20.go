package main

import (
	"encoding/json"
	"fmt"
	"math"
	"math/rand/v2"
	"sort"
	"os"
	"strings"
	"time"

	"simlens/plan"
)

// ---- C20 part A: alert state machine under the fake clock -------------------------------------------------
//
// The node runs its real alerting service (gocron scheduler, sqlite store, query engine, notification
// handler); the harness only ingests events at seeded instants, lets the fake clock run and reads the alert
// state, the alert history and the outbound webhook deliveries recorded by the simulated network.

type alertSpec struct {
	Name     string  `json:"name"`
	Interval int     `json:"interval"` // minutes
	Window   int     `json:"window"`   // minutes (eval_for)
	Cond     int     `json:"cond"`     // 0 above 1 below 2 equal 3 not-equal 4 has-no-value
	Value    float64 `json:"value"`
	Shape    int     `json:"shape"`
}

var alertShapes = []struct {
	text    string
	fn      string // count|max|min|sum|avg
	grouped bool
	filter  bool // level=error
}{
	{"level=error | stats count", "count", false, true},
	{"level=error | stats count by host", "count", true, true},
	{"level=error | stats max(latency)", "max", false, true},
	{"* | stats sum(latency) by host", "sum", true, false},
	{"level=error | stats min(latency) by host", "min", true, true},
	{"* | stats avg(latency)", "avg", false, false},
	{"* | stats count", "count", false, false},
	{"level=error | stats sum(latency)", "sum", false, true},
}

type alertEvent struct {
	Level   string
	Host    string
	Latency float64
}

func condHolds(cond int, v, thr float64) bool {
	switch cond {
	case 0:
		return v > thr
	case 1:
		return v < thr
	case 2:
		return v == thr
	case 3:
		return v != thr
	case 4:
		return v == 0
	}
	return false
}

// alertOutcome: does the condition hold for any value of the query result over evs (the events inside the
// evaluation window)? Reference semantics (SPL stats): ungrouped count of nothing is 0; every other
// aggregate of nothing, and every group-by of nothing, yields no value and the condition cannot hold.
func alertOutcome(a *alertSpec, evs []alertEvent) bool {
	o, _ := alertOutcome2(a, evs)
	return o
}

// alertOutcome2 also reports whether the outcome is left undefined by the property: an ungrouped
// sum/min/max/avg over no events (the query engine answers 0 there, SPL answers no value).
func alertOutcome2(a *alertSpec, evs []alertEvent) (bool, bool) {
	sh := alertShapes[a.Shape]
	groups := map[string][]float64{}
	for _, e := range evs {
		if sh.filter && e.Level != "error" {
			continue
		}
		g := ""
		if sh.grouped {
			g = e.Host
		}
		groups[g] = append(groups[g], e.Latency)
	}
	if !sh.grouped && len(groups) == 0 {
		if sh.fn == "count" {
			return condHolds(a.Cond, 0, a.Value), false
		}
		return false, true
	}
	for _, vals := range groups {
		var v float64
		switch sh.fn {
		case "count":
			v = float64(len(vals))
		case "sum", "avg":
			for _, x := range vals {
				v += x
			}
			if sh.fn == "avg" {
				v /= float64(len(vals))
			}
		case "max":
			v = math.Inf(-1)
			for _, x := range vals {
				v = math.Max(v, x)
			}
		case "min":
			v = math.Inf(1)
			for _, x := range vals {
				v = math.Min(v, x)
			}
		}
		if condHolds(a.Cond, v, a.Value) {
			return true, false
		}
	}
	return false, false
}

func genAlertBatch(r *rand.Rand) []alertEvent {
	n := []int{0, 0, 1, 1, 2, 3, 5}[r.IntN(7)]
	var out []alertEvent
	for i := 0; i < n; i++ {
		out = append(out, alertEvent{Level: []string{"error", "error", "info"}[r.IntN(3)], Host: []string{"h1", "h2", "h3"}[r.IntN(3)], Latency: float64(r.IntN(9) * 10)})
	}
	return out
}

func alertEventJSON(e alertEvent, seq int) json.RawMessage {
	return json.RawMessage(fmt.Sprintf(`{"level":%q,"host":%q,"latency":%d,"vid":"al-%d"}`, e.Level, e.Host, int(e.Latency), seq))
}

func genAlertSpec(r *rand.Rand, name string) alertSpec {
	a := alertSpec{Name: name, Interval: []int{1, 1, 2, 3}[r.IntN(4)], Shape: r.IntN(len(alertShapes))}
	n := []int{1, 2, 2, 3, 4}[r.IntN(5)]
	a.Window = n * a.Interval
	if a.Interval > 1 && r.IntN(3) == 0 {
		a.Window += 1 + r.IntN(a.Interval-1) // window not a multiple of the interval: N is the floor
	}
	sh := alertShapes[a.Shape]
	switch sh.fn {
	case "count":
		a.Cond = []int{0, 0, 1, 2, 3, 4}[r.IntN(6)]
		if sh.grouped && a.Cond == 4 {
			a.Cond = 0
		}
		a.Value = float64([]int{0, 0, 1, 2}[r.IntN(4)])
		if a.Cond == 1 {
			a.Value = float64(1 + r.IntN(3))
		}
	case "avg":
		a.Cond = r.IntN(2)
		a.Value = float64(r.IntN(8)*10) + 4.5
	default:
		a.Cond = r.IntN(4)
		a.Value = float64(r.IntN(9) * 10)
	}
	return a
}

func genAlertPlan(r *rand.Rand, quick bool) *plan.Plan {
	k := plan.Knobs{Sched: true, Procs: []int{1, 2, 4}[r.IntN(3)]}
	k.PreemptPermille = []int{0, 0, 20, 100}[r.IntN(4)]
	if r.IntN(3) == 0 {
		k.DelayPermille = 20
		k.DelayLen = []int{50, 400}[r.IntN(2)]
	}
	k.PQS = &boolF
	p := &plan.Plan{Knobs: k, Params: map[string]any{"part": "alerts"}}
	nAlerts := 1 + r.IntN(3)
	var specs []alertSpec
	for i := 0; i < nAlerts; i++ {
		specs = append(specs, genAlertSpec(r, fmt.Sprintf("a%d", i+1)))
	}
	p.Params["alerts"] = specs
	minutes := 5 + r.IntN(8)
	if !quick {
		minutes = 6 + r.IntN(16)
	}
	restarts := map[int]bool{}
	if r.IntN(3) == 0 {
		restarts[2+r.IntN(minutes-2)] = true
		if r.IntN(3) == 0 {
			restarts[2+r.IntN(minutes-2)] = true
		}
	}
	failAt := -1
	if r.IntN(3) == 0 {
		failAt = r.IntN(minutes)
	}
	seq := 0
	// drive the outcome of the first alert towards runs of trues about as long as its window
	want := func() bool { return r.IntN(100) < 65 }
	batch := func() []json.RawMessage {
		w := want()
		var evs []alertEvent
		for try := 0; try < 8; try++ {
			evs = genAlertBatch(r)
			if alertOutcome(&specs[0], evs) == w {
				break
			}
		}
		var raw []json.RawMessage
		for _, e := range evs {
			seq++
			raw = append(raw, alertEventJSON(e, seq))
		}
		return raw
	}
	inc := plan.Incarnation{Boot: "full", SchedSeed: r.Uint64()>>11 | 1}
	// an index must exist before the alert's first evaluation (at creation)
	seq++
	inc.Ops = append(inc.Ops, plan.Op{Kind: "ingest", Index: "al", Events: []json.RawMessage{json.RawMessage(fmt.Sprintf(`{"level":"info","host":"h1","latency":0,"timestamp":%d,"vid":"al-%d"}`, simEpochMs-86_400_000, seq))}}, plan.Op{Kind: "flush"})
	if ev := batch(); len(ev) > 0 {
		inc.Ops = append(inc.Ops, plan.Op{Kind: "ingest", Index: "al", Events: ev}, plan.Op{Kind: "flush"})
	}
	inc.Ops = append(inc.Ops, plan.Op{Kind: "advance", DurMs: 15_000})
	for i := range specs {
		a := &specs[i]
		inc.Ops = append(inc.Ops, plan.Op{Kind: "alert_create", Name: a.Name, Index: "al", Args: map[string]any{
			"eval_for": a.Window, "eval_interval": a.Interval, "condition": a.Cond, "value": a.Value, "query": alertShapes[a.Shape].text}})
	}
	stateOps := func() {
		for i := range specs {
			inc.Ops = append(inc.Ops, plan.Op{Kind: "alert_state", Name: specs[i].Name})
		}
	}
	// one history in three edits the first alert in mid-run (same condition, new message): the handler writes a
	// "config modified" history row and re-registers the job, and the alert has to hold its condition for a
	// whole window again before it fires
	updAt := -1
	if r.IntN(3) == 0 {
		updAt = 1 + r.IntN(minutes-1)
	}
	for m := 0; m < minutes; m++ {
		if m == updAt && !restarts[m] {
			a := &specs[0]
			inc.Ops = append(inc.Ops, plan.Op{Kind: "advance", DurMs: int64(1000 + r.IntN(8000))}, plan.Op{Kind: "alert_update", Name: a.Name, Index: "al", Args: map[string]any{
				"eval_for": a.Window, "eval_interval": a.Interval, "condition": a.Cond, "value": a.Value, "query": alertShapes[a.Shape].text, "message": "alert " + a.Name + " v2"}})
		}
		if m == failAt {
			inc.Ops = append(inc.Ops, plan.Op{Kind: "fail_deliveries", Args: map[string]any{"n": 1 + r.IntN(3)}})
		}
		inc.Ops = append(inc.Ops, plan.Op{Kind: "advance", DurMs: 20_000})
		if ev := batch(); len(ev) > 0 {
			inc.Ops = append(inc.Ops, plan.Op{Kind: "ingest", Index: "al", Events: ev}, plan.Op{Kind: "flush"})
		}
		if restarts[m] {
			// restart 25 s after the batch: the alert jobs are re-registered at boot and tick from there
			inc.Ops = append(inc.Ops, plan.Op{Kind: "advance", DurMs: 25_000})
			stateOps()
			inc.Ops = append(inc.Ops, plan.Op{Kind: "deliveries"})
			p.Incs = append(p.Incs, inc)
			inc = plan.Incarnation{Boot: "full", SchedSeed: r.Uint64()>>11 | 1}
			continue
		}
		inc.Ops = append(inc.Ops, plan.Op{Kind: "advance", DurMs: 40_000})
		if r.IntN(3) == 0 || m == minutes-1 {
			stateOps()
		}
	}
	inc.Ops = append(inc.Ops, plan.Op{Kind: "advance", DurMs: 5_000})
	stateOps()
	inc.Ops = append(inc.Ops, plan.Op{Kind: "deliveries"})
	p.Incs = append(p.Incs, inc)
	return p
}

type histRow struct {
	State int    `json:"alert_state"`
	Desc  string `json:"event_description"`
	At    string `json:"event_triggered_at"`
	User  string `json:"user_name"`
	ms    int64
}

type alertRead struct {
	Exists  bool      `json:"exists"`
	State   int       `json:"state"`
	NumEval int       `json:"num_evaluations"`
	History []histRow `json:"history"`
}

type delivery struct {
	SimMs  int64  `json:"sim_ms"`
	URL    string `json:"url"`
	Body   string `json:"body"`
	Failed bool   `json:"failed"`
}

var stateNames = []string{"Inactive", "Normal", "Pending", "Firing"}

func alertsOracle(prop string, res *RunResult) []Violation {
	var vs []Violation
	var specs []alertSpec
	if raw, err := json.Marshal(res.Plan.Params["alerts"]); err == nil {
		_ = json.Unmarshal(raw, &specs)
	}
	specOf := map[string]*alertSpec{}
	for i := range specs {
		specOf[specs[i].Name] = &specs[i]
	}
	type timedEvent struct {
		at int64
		alertEvent
	}
	var events []timedEvent
	type span struct{ from, to int64 } // incarnation life in fake time
	var spans []span
	created := map[string]int64{}
	updated := map[string][]int64{} // instants of accepted updates per alert
	type failRule struct {
		at int64
		n  int
	}
	fails := map[int][]failRule{}
	lastRead := map[string]*alertRead{}
	lastReadAt := map[string]int64{}
	deliv := map[int][]delivery{}
	haveDeliv := map[int]bool{}
	for ii, inc := range res.Plan.Incs {
		if ii >= len(res.Incs) {
			break
		}
		ir := res.Incs[ii]
		if ab := ir.Abnormal(); ab != "" {
			if ab == "harness" || ab == "wall-timeout" {
				return nil
			}
			site := ir.PanicSite()
			if ab == "hang" {
				site = ir.HangKind()
			}
			return append(vs, Violation{Sig: prop + ":alerts:node-" + ab + ":" + site, Msg: trimTo(ir.Stderr, 1500)})
		}
		if len(ir.Entries) == 0 {
			return nil
		}
		sp := span{from: ir.Entries[0].SimMs, to: ir.Entries[len(ir.Entries)-1].SimMs}
		spans = append(spans, sp)
		for oi := range inc.Ops {
			op := &inc.Ops[oi]
			e := ir.Get(fmt.Sprint(oi))
			if e == nil {
				break
			}
			where := fmt.Sprintf("inc %d op %d", ii, oi)
			switch op.Kind {
			case "ingest":
				if e.Err != "" {
					vs = append(vs, Violation{Sig: prop + ":alerts:ingest-failed", Msg: where + ": " + e.Err})
					continue
				}
				for _, raw := range op.Events {
					var m struct {
						Level     string  `json:"level"`
						Host      string  `json:"host"`
						Latency   float64 `json:"latency"`
						Timestamp int64   `json:"timestamp"`
					}
					_ = json.Unmarshal(raw, &m)
					at := e.SimMs
					if m.Timestamp != 0 {
						at = m.Timestamp
					}
					events = append(events, timedEvent{at, alertEvent{m.Level, m.Host, m.Latency}})
				}
			case "alert_create":
				if e.Err != "" {
					vs = append(vs, Violation{Sig: prop + ":alerts:create-failed", Msg: where + ": " + e.Err})
					continue
				}
				created[op.Name] = e.SimMs
			case "alert_update":
				if e.Err != "" {
					vs = append(vs, Violation{Sig: prop + ":alerts:update-failed", Msg: where + ": " + e.Err})
					continue
				}
				updated[op.Name] = append(updated[op.Name], e.SimMs)
			case "fail_deliveries":
				n := 0
				if v, ok := op.Args["n"].(float64); ok {
					n = int(v)
				} else if v, ok := op.Args["n"].(int); ok {
					n = v
				}
				fails[ii] = append(fails[ii], failRule{e.SimMs, n})
			case "alert_state":
				var rd alertRead
				if e.Err != "" || json.Unmarshal(e.Data, &rd) != nil {
					vs = append(vs, Violation{Sig: prop + ":alerts:state-read-failed", Msg: where + ": " + e.Err})
					continue
				}
				if _, ok := created[op.Name]; !ok {
					continue
				}
				if !rd.Exists {
					vs = append(vs, Violation{Sig: prop + ":alerts:alert-missing", Msg: where + ": alert " + op.Name + " is not listed"})
					continue
				}
				for i := range rd.History {
					t, err := time.Parse(time.RFC3339Nano, rd.History[i].At)
					if err == nil {
						rd.History[i].ms = t.UnixMilli()
					}
				}
				// the state read equals the state of the latest evaluation, and the counter equals the rows
				if n := len(rd.History); n > 0 {
					if rd.State != rd.History[n-1].State {
						vs = append(vs, Violation{Sig: prop + ":alerts:state-differs-from-last-evaluation", Msg: fmt.Sprintf("%s: alert %s reads state %d but its latest history row says %d", where, op.Name, rd.State, rd.History[n-1].State)})
					}
					nEval := 0
					for _, h := range rd.History {
						if h.User == "System Generated" {
							nEval++
						}
					}
					if rd.NumEval != nEval {
						vs = append(vs, Violation{Sig: prop + ":alerts:evaluation-count-differs", Msg: fmt.Sprintf("%s: alert %s num_evaluations=%d, evaluation rows in its history=%d", where, op.Name, rd.NumEval, nEval)})
					}
				}
				if prev := lastRead[op.Name]; prev != nil {
					// history is append-only
					if len(rd.History) < len(prev.History) {
						vs = append(vs, Violation{Sig: prop + ":alerts:history-shrank", Msg: fmt.Sprintf("%s: alert %s history went from %d to %d rows", where, op.Name, len(prev.History), len(rd.History))})
					} else {
						for i := range prev.History {
							if prev.History[i].State != rd.History[i].State || prev.History[i].ms != rd.History[i].ms {
								vs = append(vs, Violation{Sig: prop + ":alerts:history-rewritten", Msg: fmt.Sprintf("%s: alert %s history row %d changed", where, op.Name, i)})
								break
							}
						}
					}
				}
				r2 := rd
				lastRead[op.Name] = &r2
				lastReadAt[op.Name] = e.SimMs
			case "deliveries":
				var d struct {
					Deliveries []delivery `json:"deliveries"`
				}
				if e.Err == "" && json.Unmarshal(e.Data, &d) == nil {
					deliv[ii] = d.Deliveries
					haveDeliv[ii] = true
				}
			}
		}
	}
	incOf := func(ms int64) int {
		for i, s := range spans {
			if ms >= s.from-5000 && ms <= s.to {
				return i
			}
		}
		return -1
	}
	const margin = 3000
	names := make([]string, 0, len(lastRead))
	for n := range lastRead {
		names = append(names, n)
	}
	sort.Strings(names)
	for _, name := range names {
		a := specOf[name]
		rd := lastRead[name]
		if a == nil {
			continue
		}
		n := a.Window / a.Interval
		iv := int64(a.Interval) * 60_000
		// evaluation rows
		var rows []histRow
		for _, h := range rd.History {
			if h.User == "System Generated" {
				rows = append(rows, h)
			}
		}
		// schedule: first evaluation at creation, then one per interval inside each incarnation, and one at each boot
		for i, h := range rows {
			if i == 0 {
				if d := h.ms - created[name]; d < -1000 || d > 5000 {
					vs = append(vs, Violation{Sig: prop + ":alerts:first-evaluation-off-schedule", Msg: fmt.Sprintf("alert %s created at %d, first evaluation at %d", name, created[name], h.ms)})
				}
				continue
			}
			prev := rows[i-1]
			if u := updateBetween(updated[name], prev.ms, h.ms); u > 0 {
				// the job is registered anew by the update and evaluates at once
				if d := h.ms - u; d < -1000 || d > 5000 {
					vs = append(vs, Violation{Sig: prop + ":alerts:first-evaluation-after-update-off-schedule", Msg: fmt.Sprintf("alert %s updated at %d, next evaluation at %d", name, u, h.ms)})
				}
				continue
			}
			if incOf(prev.ms) == incOf(h.ms) {
				if d := h.ms - prev.ms; d < iv-2000 || d > iv+2000 {
					vs = append(vs, Violation{Sig: prop + ":alerts:evaluation-off-schedule", Msg: fmt.Sprintf("alert %s (interval %d min): evaluations %d and %d are %d ms apart", name, a.Interval, i-1, i, d)})
				}
			}
		}
		if len(rows) > 0 {
			last := rows[len(rows)-1]
			if lastReadAt[name]-last.ms > iv+2000 {
				vs = append(vs, Violation{Sig: prop + ":alerts:evaluation-missed", Msg: fmt.Sprintf("alert %s (interval %d min): last evaluation at %d, state read at %d", name, a.Interval, last.ms, lastReadAt[name])})
			}
		} else {
			vs = append(vs, Violation{Sig: prop + ":alerts:never-evaluated", Msg: "alert " + name + " has no evaluation"})
			continue
		}
		// state machine
		var outcomes []int // 1 true 0 false -1 ambiguous
		lastNotified := 0  // 0 none, 3 firing, 1 normal
		type attempt struct {
			at     int64
			status string
		}
		expAttempts := map[int][]attempt{}
		ambiguousNotify := false
		for i, h := range rows {
			lo, hi := h.ms-iv, h.ms
			var in []alertEvent
			amb := false
			for _, ev := range events {
				if absI64(ev.at-lo) < margin || absI64(ev.at-hi) < margin {
					amb = true
				}
				if ev.at >= lo && ev.at <= hi {
					in = append(in, ev.alertEvent)
				}
			}
			o := 0
			ob, undefined := alertOutcome2(a, in)
			if ob {
				o = 1
			}
			if amb || undefined {
				o = -1
			}
			if i > 0 && updateBetween(updated[name], rows[i-1].ms, h.ms) > 0 {
				// a modified alert starts its window over: the edit stands in the sequence like an evaluation that
				// did not hold
				outcomes = append(outcomes, 0)
			}
			outcomes = append(outcomes, o)
			// expected state from the last n outcomes
			exp, unsure := expectedAlertState(outcomes, n)
			if !unsure && h.State != exp {
				vs = append(vs, Violation{Sig: fmt.Sprintf("%s:alerts:state:want-%s-got-%s", prop, stateNames[exp], stateName(h.State)),
					Msg: fmt.Sprintf("alert %s (%s, cond %d value %v, window %d interval %d => N=%d): evaluation %d at %d over %d events in window: outcomes so far %v, expected %s, history says %s",
						name, alertShapes[a.Shape].text, a.Cond, a.Value, a.Window, a.Interval, n, i, h.ms, len(in), outcomes, stateNames[exp], stateName(h.State))})
			}
			if unsure {
				ambiguousNotify = true
			}
			// notifications follow the recorded state (so that one wrong state is reported once)
			ii := incOf(h.ms)
			switch h.State {
			case 3:
				expAttempts[ii] = append(expAttempts[ii], attempt{h.ms, "firing"})
			case 1:
				if lastNotified == 3 {
					expAttempts[ii] = append(expAttempts[ii], attempt{h.ms, "normal"})
				}
			}
			// was the attempt delivered? replay the harness's failure rule for this incarnation
			if as := expAttempts[ii]; len(as) > 0 && as[len(as)-1].at == h.ms {
				if !attemptFails(name, deliv[ii], h.ms) {
					if h.State == 3 {
						lastNotified = 3
					} else {
						lastNotified = 1
					}
				}
			}
		}
		_ = ambiguousNotify
		for ii := range spans {
			if !haveDeliv[ii] {
				continue
			}
			var got []delivery
			for _, d := range deliv[ii] {
				// evaluations after the last state read of this alert are not in the history the model follows
				if strings.HasSuffix(d.URL, "/"+name) && d.SimMs <= lastReadAt[name] {
					got = append(got, d)
				}
			}
			exp := expAttempts[ii]
			desc := func() string {
				var g []string
				for _, d := range got {
					g = append(g, fmt.Sprintf("%d:%s(failed=%v)", d.SimMs, deliveryStatus(d.Body), d.Failed))
				}
				var x []string
				for _, e := range exp {
					x = append(x, fmt.Sprintf("%d:%s", e.at, e.status))
				}
				return fmt.Sprintf("alert %s inc %d: expected notifications %v, recorded deliveries %v", name, ii, x, g)
			}
			if len(got) != len(exp) {
				kind := "missing"
				if len(got) > len(exp) {
					kind = "extra"
				}
				vs = append(vs, Violation{Sig: prop + ":alerts:notification-" + kind, Msg: desc()})
				continue
			}
			for i := range exp {
				if deliveryStatus(got[i].Body) != exp[i].status || absI64(got[i].SimMs-exp[i].at) > 3000 {
					vs = append(vs, Violation{Sig: prop + ":alerts:notification-wrong", Msg: desc()})
					break
				}
			}
		}
	}
	// deliveries to unknown receivers
	for ii := range deliv {
		for _, d := range deliv[ii] {
			ok := false
			for name := range created {
				if strings.HasSuffix(d.URL, "/"+name) {
					ok = true
				}
			}
			if !ok {
				vs = append(vs, Violation{Sig: prop + ":alerts:delivery-to-unknown-receiver", Msg: d.URL})
			}
		}
	}
	return vs
}

// attemptFails: did the harness fail the delivery made at time at? (the recorded delivery carries the flag;
// when nothing was recorded the rule is replayed as "not failed")
func attemptFails(alert string, ds []delivery, at int64) bool {
	for _, d := range ds {
		if strings.HasSuffix(d.URL, "/"+alert) && absI64(d.SimMs-at) <= 3000 && d.Failed {
			return true
		}
	}
	return false
}

func deliveryStatus(body string) string {
	var b struct {
		Status string `json:"Status"`
	}
	_ = json.Unmarshal([]byte(body), &b)
	return b.Status
}

func stateName(s int) string {
	if s >= 0 && s < len(stateNames) {
		return stateNames[s]
	}
	return fmt.Sprint(s)
}

// expectedAlertState from the outcome sequence so far (the last element is the current evaluation).
// Ambiguous outcomes (-1) make the expectation unsure unless they cannot matter.
// updateBetween: the instant of an update of the alert in (after, upTo+1s], or 0.
func updateBetween(us []int64, after, upTo int64) int64 {
	for _, u := range us {
		if u > after && u <= upTo+1000 {
			return u
		}
	}
	return 0
}

func expectedAlertState(outcomes []int, n int) (state int, unsure bool) {
	cur := outcomes[len(outcomes)-1]
	if cur == -1 {
		return 0, true
	}
	if cur == 0 {
		return 1, false
	}
	if len(outcomes) < n {
		return 2, false
	}
	all := true
	for _, o := range outcomes[len(outcomes)-n:] {
		if o == 0 {
			return 2, false
		}
		if o == -1 {
			all = false
		}
	}
	if !all {
		return 0, true
	}
	return 3, false
}

func absI64(x int64) int64 {
	if x < 0 {
		return -x
	}
	return x
}

func c20Oracle(res *RunResult) []Violation {
	part, _ := res.Plan.Params["part"].(string)
	switch part {
	case "alerts":
		return alertsOracle("C20", res)
	case "crud":
		if res.Plan.Params["crash_mode"] == true {
			return crudCrashOracle("C20", res)
		}
		return crudOracle("C20", res)
	}
	return nil
}

func init() {
	register(&Check{
		ID:    "C20",
		Level: "exploration",
		Rule: "part A (alerts): each case is one seeded history of 5-21 simulated minutes on the fake clock: 1-3 log alerts (8 query shapes: plain and grouped count/sum/min/max/avg; 5 conditions; interval 1-3 min, window N x interval incl. non-multiples) are created through the HTTP API and evaluated by the node's own cron scheduler; every minute a seeded batch of events is ingested 20 s after the tick; 0-2 restarts; webhook deliveries over the simulated network with seeded delivery failures; scheduler pre-emption/site delays. Oracle: every history row's state equals the N-window rule over reference outcomes (independent aggregate evaluator over the events inside each evaluation window), evaluations happen once per interval, state/num_evaluations reads agree with the history, the history is append-only, notifications are exactly: one per Firing evaluation (cool-down 0), one on return to Normal after a delivered Firing, none otherwise. distinct = (alert settings, outcome sequence) tuples; non-trivial = some alert reached Firing and left it",
		Run: func(c *Ctx) {
			n := 640
			if !c.Quick() {
				n = 40000
			}
			c.Explore(n, func(r *rand.Rand, i int) *plan.Plan {
				if only := os.Getenv("VERIF_C20_PART"); only == "alerts" || (only == "" && i%8 == 0) {
					return genAlertPlan(r, c.Quick())
				}
				return genCrudPlan(r, c.Quick())
			}, func(res *RunResult) (string, bool, any) {
				if part, _ := res.Plan.Params["part"].(string); part == "crud" {
					return crudAccount(c, res)
				}
				return alertsAccount(c, res)
			})
			if os.Getenv("VERIF_C20_PART") == "" || os.Getenv("VERIF_C20_PART") == "crash" {
				runC20Crash(c)
			}
		},
		Oracle: c20Oracle,
		Assumptions: []string{
			"alert reference semantics: ungrouped count over no events is 0; a grouped aggregate over no events has no value and the condition does not hold; an ungrouped sum/min/max/avg over no events is left undefined (the engine answers 0, SPL answers null) and that evaluation's outcome is accepted either way; HasNoValue is generated only for ungrouped count (== 0)",
			"cool-down is fixed at 0 by the store (CreateAlert sets CooldownPeriod = 0), so 'repeated only after the cool-down' means every Firing evaluation notifies",
			"an evaluation whose window boundary lies within 3 s of an event is treated as ambiguous (not generated: batches arrive 20 s after each tick)",
			"sqlite (siglens.db) is written by the real driver to the run directory, not through simfs: restarts keep everything sqlite wrote",
		},
		Components: map[string]string{
			"alerting service (gocron jobs, handleAlertCondition, notification handler)": "real",
			"sqlite/gorm store": "real (real file I/O, outside simfs)",
			"query engine, ingest, segment writer": "real",
			"clock": "simulated (synctest bubble)", "webhook receiver": "stub (simnet records deliveries, seeded failures)",
			"scheduler": "simulated (simrt baton scheduler)",
		},
	})
}

func alertsAccount(c *Ctx, res *RunResult) (string, bool, any) {
	var specs []alertSpec
	if raw, err := json.Marshal(res.Plan.Params["alerts"]); err == nil {
		_ = json.Unmarshal(raw, &specs)
	}
	key := ""
	nontrivial := false
	var states []string
	for ii := len(res.Incs) - 1; ii >= 0 && len(states) == 0; ii-- {
		for _, e := range res.Incs[ii].Entries {
			if e.Kind != "alert_state" || e.Phase == "invoke" {
				continue
			}
			var rd alertRead
			if json.Unmarshal(e.Data, &rd) != nil {
				continue
			}
			s := ""
			fired, left := false, false
			for _, h := range rd.History {
				s += fmt.Sprint(h.State)
				if h.State == 3 {
					fired = true
				} else if fired {
					left = true
				}
			}
			states = append(states, s)
			if fired {
				c.Probe("reached_firing", 1)
			}
			if fired && left {
				nontrivial = true
				c.Probe("fired_and_left", 1)
			}
		}
	}
	nd, nf := 0, 0
	for _, ir := range res.Incs {
		for _, e := range ir.Entries {
			if e.Kind == "deliveries" && e.Phase != "invoke" {
				var d struct {
					Deliveries []delivery `json:"deliveries"`
				}
				_ = json.Unmarshal(e.Data, &d)
				for _, x := range d.Deliveries {
					nd++
					if x.Failed {
						nf++
					}
				}
			}
		}
	}
	c.Probe("deliveries", nd)
	c.Probe("restarts", len(res.Plan.Incs)-1)
	c.mu.Lock()
	c.faultCounts["delivery_failed"] += nf
	c.faultCounts["restart"] += len(res.Plan.Incs) - 1
	c.mu.Unlock()
	sb, _ := json.Marshal(specs)
	key = string(sb) + "|" + strings.Join(states, ",")
	return key, nontrivial, map[string]any{"alerts": specs, "state_sequences": states, "deliveries": nd, "incarnations": len(res.Plan.Incs)}
}

func crudAccount(c *Ctx, res *RunResult) (string, bool, any) {
	kinds := map[string]int{}
	nops := 0
	var walk func(ops []plan.Op)
	walk = func(ops []plan.Op) {
		for i := range ops {
			if ops[i].Kind == "par" {
				c.Probe("crud_concurrent_phase", 1)
				for _, cl := range ops[i].Par {
					walk(cl)
				}
				continue
			}
			if cm, ok := ops[i].Args["c"].(map[string]any); ok {
				kinds[cop(cm).s("t")]++
				nops++
			}
		}
	}
	for _, inc := range res.Plan.Incs {
		walk(inc.Ops)
	}
	c.Probe("crud_ops", nops)
	c.Probe("crud_restarts", len(res.Plan.Incs)-1)
	c.mu.Lock()
	c.faultCounts["restart"] += len(res.Plan.Incs) - 1
	c.mu.Unlock()
	kb, _ := json.Marshal(kinds)
	return fmt.Sprintf("crud|%d|%s|%v", len(res.Plan.Incs), kb, res.Plan.Params["stores"]), len(res.Plan.Incs) > 1 || res.Plan.Params["concurrent"] == true,
		map[string]any{"part": "crud", "ops": nops, "kinds": kinds, "incarnations": len(res.Plan.Incs), "stores": res.Plan.Params["stores"], "concurrent": res.Plan.Params["concurrent"]}
}
