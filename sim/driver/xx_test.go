package main
import "testing"
func TestXXH(t *testing.T) {
	if xxh64("timestamp") != 990987796498064742 || xxh64("a-much-longer-column-name-than-thirty-two-bytes") != 10110850774124119305 {
		t.Fatalf("xxh64 wrong: %d %d", xxh64("timestamp"), xxh64("a-much-longer-column-name-than-thirty-two-bytes"))
	}
}
