package main

import (
	"encoding/json"
	"fmt"
	"math"
	"math/rand/v2"
	"sort"
	"strconv"
	"strings"

	"simlens/plan"
)

// "agg" schema family: numeric measures (dense / sparse / duplicate-valued), string and sparse and mixed
// group keys.
func (g *EvGen) nextAgg(ts int64) *Event {
	g.n++
	r := g.r
	vid := fmt.Sprintf("%s%d", g.prefix, g.n)
	w := &jw{flat: map[string]Val{}}
	parts := []string{`"vid":` + w.scalar("vid", 's', vid), fmt.Sprintf(`"timestamp":%d`, ts)}
	add := func(k, v string) { parts = append(parts, jsonStr(k)+":"+v) }
	add("n", w.scalar("n", 'n', strconv.Itoa(r.IntN(50)-10)))                                       // dense ints, duplicates
	// dense floats (exact in binary); now and then a run of 3-40 events holds whole numbers only, so that whole
	// blocks and segments see the fractional measure as an integer column (partial aggregates of both kinds meet
	// in the merge)
	if g.wholeLeft == 0 && r.IntN(12) == 0 {
		g.wholeLeft = 3 + r.IntN(38)
	}
	if g.wholeLeft > 0 {
		g.wholeLeft--
		add("f", w.scalar("f", 'n', strconv.Itoa(r.IntN(250)-50)))
	} else {
		add("f", w.scalar("f", 'n', strconv.FormatFloat(float64(r.IntN(2000))/8-50, 'f', -1, 64)))
	}
	if r.IntN(3) > 0 {
		add("sp", w.scalar("sp", 'n', strconv.Itoa(r.IntN(1000)))) // sparse measure
	}
	add("g", w.scalar("g", 's', []string{"alpha", "beta", "gamma", "delta"}[r.IntN(4)]))
	add("k", w.scalar("k", 'n', strconv.Itoa(r.IntN(3))))
	if r.IntN(2) == 0 {
		add("sg", w.scalar("sg", 's', []string{"x", "y", "z"}[r.IntN(3)])) // sparse group key
	}
	switch r.IntN(4) { // mixed-type group key
	case 0:
		add("mg", w.scalar("mg", 's', []string{"p", "q"}[r.IntN(2)]))
	case 1:
		add("mg", w.scalar("mg", 'n', strconv.Itoa(r.IntN(3))))
	case 2:
		add("mg", w.scalar("mg", 'b', []string{"true", "false"}[r.IntN(2)]))
	}
	add("hc", w.scalar("hc", 's', fmt.Sprintf("u%d", r.IntN(g.cardPool*3+1)))) // higher cardinality key
	raw := "{" + strings.Join(parts, ",") + "}"
	return &Event{VID: vid, TS: ts, Flat: w.flat, Raw: json.RawMessage(raw)}
}

type AggSpec struct {
	Kind     string   `json:"kind"` // stats | timechart
	Measures []string `json:"measures"`
	By       []string `json:"by,omitempty"`
	SpanSec  int      `json:"span_sec,omitempty"`
}

func (a AggSpec) Text() string {
	if a.Kind == "timechart" {
		t := fmt.Sprintf("* | timechart span=%ds %s", a.SpanSec, strings.Join(a.Measures, ", "))
		if len(a.By) > 0 {
			t += " by " + a.By[0]
		}
		return t
	}
	t := "* | stats " + strings.Join(a.Measures, ", ")
	if len(a.By) > 0 {
		t += " by " + strings.Join(a.By, ", ")
	}
	return t
}

func genAggQueries(r *rand.Rand, index string, withLatest, withMixedKey bool) []plan.Op {
	var ops []plan.Op
	mk := func(a AggSpec) {
		sb, _ := json.Marshal(a)
		var spec map[string]any
		_ = json.Unmarshal(sb, &spec)
		ops = append(ops, plan.Op{Kind: "query", Index: index, Text: a.Text(), Start: qStart, End: qEnd, Args: map[string]any{"agg": spec}})
	}
	fields := []string{"n", "f", "sp"}
	fns := []string{"sum", "min", "max", "avg", "range", "dc", "perc50", "count"}
	if withLatest {
		fns = append(fns, "earliest", "latest")
	}
	nq := 2 + r.IntN(3)
	for i := 0; i < nq; i++ {
		a := AggSpec{Kind: "stats"}
		seen := map[string]bool{}
		for j := 0; j < 1+r.IntN(4); j++ {
			fn := fns[r.IntN(len(fns))]
			m := "count"
			if fn != "count" {
				m = fn + "(" + fields[r.IntN(len(fields))] + ")"
			}
			if r.IntN(6) == 0 {
				// multi-valued measures, over the numeric fields (f mixes whole and fractional numbers) and two keys
				m = []string{"values", "list"}[r.IntN(2)] + "(" + []string{"n", "f", "sp", "g", "k"}[r.IntN(5)] + ")"
			}
			if !seen[m] {
				seen[m] = true
				a.Measures = append(a.Measures, m)
			}
		}
		switch r.IntN(7) {
		case 0:
		case 1:
			a.By = []string{"g"}
		case 2:
			a.By = []string{"g", "k"}
		case 3:
			a.By = []string{"sg"}
		case 4:
			if withMixedKey {
				a.By = []string{"mg"}
			} else {
				a.By = []string{"g"}
			}
		case 5:
			a.By = []string{"hc"}
		default:
			a.By = []string{"k", "sg"}
		}
		mk(a)
	}
	if r.IntN(2) == 0 {
		a := AggSpec{Kind: "timechart", SpanSec: []int{60, 300, 1800, 3600}[r.IntN(4)], Measures: []string{[]string{"count", "sum(n)", "max(f)", "avg(n)"}[r.IntN(4)]}}
		if r.IntN(2) == 0 {
			a.By = []string{"g"}
		}
		mk(a)
	}
	return ops
}

func toF(v interface{}) (float64, bool) {
	switch x := v.(type) {
	case json.Number:
		f, err := x.Float64()
		return f, err == nil
	case string:
		f, err := strconv.ParseFloat(strings.TrimSpace(x), 64)
		return f, err == nil
	case float64:
		return x, true
	}
	return 0, false
}

func valText(v Val) string {
	switch v.K {
	case 's':
		return v.S
	case 'i':
		return strconv.FormatInt(v.I, 10)
	case 'f':
		return strconv.FormatFloat(v.F, 'f', -1, 64)
	case 'b':
		return strconv.FormatBool(v.B)
	}
	return ""
}

func valNum(v Val) (float64, bool) {
	switch v.K {
	case 'i':
		return float64(v.I), true
	case 'f':
		return v.F, true
	}
	return 0, false
}

// refMeasure computes one measure over events; ok=false when the reference leaves it unconstrained.
func refMeasure(m string, evs []*Event) (want float64, lo, hi float64, kind string) {
	if m == "count" {
		return float64(len(evs)), 0, 0, "exact"
	}
	i := strings.IndexByte(m, '(')
	fn, field := m[:i], m[i+1:len(m)-1]
	var xs []float64
	type tv struct {
		ts int64
		v  float64
	}
	var tvs []tv
	for _, e := range evs {
		if v, ok := e.Flat[field]; ok {
			if f, ok := valNum(v); ok {
				xs = append(xs, f)
				tvs = append(tvs, tv{e.TS, f})
			}
		}
	}
	if len(xs) == 0 {
		return 0, 0, 0, "none"
	}
	sum, mn, mx := 0.0, xs[0], xs[0]
	for _, x := range xs {
		sum += x
		mn = math.Min(mn, x)
		mx = math.Max(mx, x)
	}
	switch fn {
	case "sum":
		return sum, 0, 0, "float"
	case "min":
		return mn, 0, 0, "exact"
	case "max":
		return mx, 0, 0, "exact"
	case "avg":
		return sum / float64(len(xs)), 0, 0, "float"
	case "range":
		return mx - mn, 0, 0, "float"
	case "dc":
		d := map[float64]bool{}
		for _, x := range xs {
			d[x] = true
		}
		n := float64(len(d))
		tol := math.Max(2, 0.06*n)
		return n, n - tol, n + tol, "range"
	case "perc50":
		s := append([]float64(nil), xs...)
		sort.Float64s(s)
		l := s[int(math.Floor(0.25*float64(len(s)-1)))]
		h := s[int(math.Ceil(0.75*float64(len(s)-1)))]
		return s[len(s)/2], l, h, "range"
	case "earliest", "latest":
		best := tvs[0].ts
		for _, t := range tvs {
			if (fn == "earliest" && t.ts < best) || (fn == "latest" && t.ts > best) {
				best = t.ts
			}
		}
		l, h := math.Inf(1), math.Inf(-1)
		for _, t := range tvs {
			if t.ts == best {
				l = math.Min(l, t.v)
				h = math.Max(h, t.v)
			}
		}
		return l, l, h, "range" // any value among events tied at that timestamp
	}
	return 0, 0, 0, "none"
}

func measureOK(got interface{}, want, lo, hi float64, kind string) (bool, string) {
	switch kind {
	case "none":
		return true, ""
	}
	g, ok := toF(got)
	if !ok {
		return false, fmt.Sprintf("non-numeric %v", got)
	}
	switch kind {
	case "exact":
		return g == want, fmt.Sprintf("got %v want %v", g, want)
	case "float":
		return closeEnough(g, want), fmt.Sprintf("got %v want %v", g, want)
	case "range":
		return g >= lo-1e-9 && g <= hi+1e-9, fmt.Sprintf("got %v want within [%v,%v]", g, lo, hi)
	}
	return true, ""
}

// checkAgg compares one aggregation answer with the reference aggregate of the flushed events.
func checkAgg(prop string, a AggSpec, evs []*Event, q *qData, where string) []Violation {
	var vs []Violation
	cls := a.Kind
	if len(q.Errors) > 0 {
		vs = append(vs, Violation{Sig: prop + ":" + cls + ":query-reports-errors", Msg: where + " " + a.Text() + ": " + strings.Join(q.Errors, "; ")})
	}
	if a.Kind == "timechart" {
		span := int64(a.SpanSec) * 1000
		covered := 0
		var starts []int64
		for _, b := range q.Measure {
			if len(b.G) != 1 {
				continue
			}
			s, err := strconv.ParseInt(b.G[0], 10, 64)
			if err != nil {
				vs = append(vs, Violation{Sig: prop + ":timechart:bucket-key-not-a-time", Msg: where + ": " + b.G[0]})
				continue
			}
			starts = append(starts, s)
			var in []*Event
			for _, e := range evs {
				if e.TS >= s && e.TS < s+span {
					in = append(in, e)
				}
			}
			covered += len(in)
			for mname, got := range b.M {
				base := mname
				var sub []*Event = in
				if i := strings.Index(mname, ": "); i >= 0 && len(a.By) > 0 {
					base = mname[:i]
					gv := mname[i+2:]
					sub = nil
					for _, e := range in {
						if v, ok := e.Flat[a.By[0]]; ok && valText(v) == gv {
							sub = append(sub, e)
						}
					}
				}
				base = strings.Replace(base, "count(*)", "count", 1)
				want, lo, hi, kind := refMeasure(base, sub)
				if len(sub) == 0 && kind != "none" {
					if g, ok := toF(got); ok && g == 0 {
						continue // an empty bucket reported as 0
					}
				}
				if ok, d := measureOK(got, want, lo, hi, kind); !ok {
					vs = append(vs, Violation{Sig: prop + ":timechart:" + fnName(base) + "-wrong", Msg: fmt.Sprintf("%s: %s bucket %d %s: %s", where, a.Text(), s, mname, d)})
				}
			}
		}
		sort.Slice(starts, func(i, j int) bool { return starts[i] < starts[j] })
		for i := 1; i < len(starts); i++ {
			if starts[i]-starts[i-1] < span {
				vs = append(vs, Violation{Sig: prop + ":timechart:buckets-overlap", Msg: fmt.Sprintf("%s: %s buckets %d and %d closer than the span", where, a.Text(), starts[i-1], starts[i])})
			}
		}
		if covered != len(evs) {
			vs = append(vs, Violation{Sig: prop + ":timechart:events-not-partitioned", Msg: fmt.Sprintf("%s: %s: the returned buckets contain %d of %d events", where, a.Text(), covered, len(evs))})
		}
		return vs
	}
	// stats [by ...]
	mixedKey := false
	for _, b := range a.By {
		if b == "mg" {
			mixedKey = true
		}
	}
	mk := ""
	if mixedKey {
		mk = ":mixed-type-group-key"
	}
	for _, b := range a.By {
		if b == "sg" {
			mk += ":sparse-group-key"
		}
	}
	for _, m := range a.Measures {
		if strings.HasSuffix(m, "(sp)") && len(a.By) > 0 {
			mk += ":grouped-query-with-sparse-measure"
			break
		}
	}
	groups := map[string][]*Event{}
	absent := 0
	for _, e := range evs {
		var key []string
		miss := false
		for _, b := range a.By {
			v, ok := e.Flat[b]
			if !ok {
				miss = true
				break
			}
			key = append(key, valText(v))
		}
		if miss {
			absent++
			continue
		}
		groups[strings.Join(key, "\x00")] = append(groups[strings.Join(key, "\x00")], e)
	}
	if len(a.By) == 0 {
		groups = map[string][]*Event{"": evs}
	}
	seen := map[string]bool{}
	for _, b := range q.Measure {
		key := strings.Join(b.G, "\x00")
		if len(a.By) == 0 {
			key = ""
		}
		if seen[key] {
			vs = append(vs, Violation{Sig: prop + ":stats:group-key-twice" + mk, Msg: fmt.Sprintf("%s: %s: group %q twice", where, a.Text(), b.G)})
		}
		seen[key] = true
		ge, ok := groups[key]
		if !ok {
			// a group for events lacking a by-field is unconstrained (how absence is keyed is not stated)
			hasEmpty := false
			for _, g := range b.G {
				if g == "" || g == "null" || g == "NULL" {
					hasEmpty = true
				}
			}
			if hasEmpty && absent > 0 {
				continue
			}
			if len(evs) == 0 {
				continue
			}
			vs = append(vs, Violation{Sig: prop + ":stats:group-invented" + mk, Msg: fmt.Sprintf("%s: %s: group %q does not occur in the data", where, a.Text(), b.G)})
			continue
		}
		for _, m := range a.Measures {
			name := m
			if m == "count" {
				name = "count(*)"
			}
			if strings.HasPrefix(m, "dc(") {
				name = "cardinality(" + m[3:]
			}
			got, present := b.M[name]
			if fn := fnName(m); fn == "values" || fn == "list" {
				if v := checkMulti(fn, m[len(fn)+1:len(m)-1], ge, got, present); v != "" {
					vs = append(vs, Violation{Sig: prop + ":stats:" + fn + "-wrong" + mk, Msg: fmt.Sprintf("%s: %s: group %q %s: %s", where, a.Text(), b.G, name, v)})
				}
				continue
			}
			want, lo, hi, kind := refMeasure(m, ge)
			if !present {
				if kind != "none" {
					vs = append(vs, Violation{Sig: prop + ":stats:measure-missing" + mk, Msg: fmt.Sprintf("%s: %s: group %q has no %s (have %v)", where, a.Text(), b.G, name, mapKeys(b.M))})
				}
				continue
			}
			if ok, d := measureOK(got, want, lo, hi, kind); !ok {
				suffix := mk
				if strings.HasSuffix(m, "(sp)") && len(a.By) == 0 {
					suffix = ":sparse-field"
				}
				vs = append(vs, Violation{Sig: prop + ":stats:" + fnName(m) + "-wrong" + suffix, Msg: fmt.Sprintf("%s: %s: group %q %s: %s", where, a.Text(), b.G, name, d)})
			}
		}
	}
	for key, ge := range groups {
		if !seen[key] && len(ge) > 0 {
			vs = append(vs, Violation{Sig: prop + ":stats:group-missing" + mk, Msg: fmt.Sprintf("%s: %s: group %q (%d events) not returned; %d groups returned", where, a.Text(), strings.Split(key, "\x00"), len(ge), len(q.Measure))})
			break
		}
	}
	return vs
}

// checkMulti: values(x) is the set of distinct values of x among the events, list(x) their multiset (the
// first 100 in an unstated order: only lists of at most 100 values are compared in full). Numbers are compared
// numerically (2 and 2.0 are one value), everything else as text.
func checkMulti(fn, field string, evs []*Event, got interface{}, present bool) string {
	canon := func(s string) string {
		if f, err := strconv.ParseFloat(s, 64); err == nil {
			return strconv.FormatFloat(f, 'g', -1, 64)
		}
		return s
	}
	want := map[string]int{}
	total := 0
	for _, e := range evs {
		if v, ok := e.Flat[field]; ok {
			var t string
			switch v.K {
			case 's':
				t = v.S
			default:
				if f, ok := valNum(v); ok {
					t = strconv.FormatFloat(f, 'g', -1, 64)
				} else {
					continue
				}
			}
			want[t]++
			total++
		}
	}
	var gl []string
	switch g := got.(type) {
	case nil:
	case []interface{}:
		for _, x := range g {
			gl = append(gl, fmt.Sprint(x))
		}
	case string:
		var arr []interface{}
		if json.Unmarshal([]byte(g), &arr) == nil {
			for _, x := range arr {
				gl = append(gl, fmt.Sprint(x))
			}
		} else if g != "" {
			gl = strings.Fields(strings.Trim(g, "[]"))
		}
	default:
		gl = []string{fmt.Sprint(g)}
	}
	if total == 0 {
		// like every other measure over no values at all: how "nothing" is rendered is not stated (the node
		// answers 0)
		return ""
	}
	if !present {
		return fmt.Sprintf("measure missing although %d events carry the field", total)
	}
	have := map[string]int{}
	for _, x := range gl {
		have[canon(x)]++
	}
	if fn == "values" {
		for k := range want {
			if have[k] == 0 {
				return fmt.Sprintf("value %s of %d distinct values is missing; got %d values %v (%T)", k, len(want), len(gl), trimTo(fmt.Sprint(gl), 200), got)
			}
		}
		for k, c := range have {
			if want[k] == 0 {
				return fmt.Sprintf("value %s does not occur in the matched events", k)
			}
			if c > 1 {
				return fmt.Sprintf("value %s listed %d times", k, c)
			}
		}
		return ""
	}
	for k, c := range have {
		if c > want[k] {
			return fmt.Sprintf("value %s listed %d times, occurs %d times", k, c, want[k])
		}
	}
	if total <= 100 {
		for k, c := range want {
			if have[k] != c {
				return fmt.Sprintf("value %s occurs %d times, listed %d times; %d values listed of %d (%T)", k, c, have[k], len(gl), total, got)
			}
		}
	} else if len(gl) < 100 {
		return fmt.Sprintf("%d values listed of %d", len(gl), total)
	}
	return ""
}

func fnName(m string) string {
	if i := strings.IndexByte(m, '('); i > 0 {
		return m[:i]
	}
	return m
}

func mapKeys(m map[string]interface{}) []string {
	var out []string
	for k := range m {
		out = append(out, k)
	}
	sort.Strings(out)
	return out
}

func init() {
	register(&Check{
		ID:    "C04",
		Level: "exploration",
		Rule: "each case is one seeded history of the 'agg' schema family (dense/sparse/duplicate-valued numeric measures; string, sparse, mixed-type and higher-cardinality group keys) with flush / rotation / idle-timer / restart steps and swarm knobs (agile tree on/off, PQS, cardinality limit, segment size); after every flush-completing step 2-5 generated `stats` (count,sum,min,max,avg,range,dc,earliest,latest,perc50; by none/one/two keys) and `timechart span=` queries are compared with a reference aggregator over exactly the flushed events. distinct = distinct (operation shape, knobs, query texts); non-trivial = at least two flushed blocks",
		Run: func(c *Ctx) {
			n := 120
			if !c.Quick() {
				n = 5000
			}
			o := histOpts{families: []string{"agg"}, maxIdx: 2, minBatches: 3, maxBatches: 10, maxEvents: 60, restarts: true, noColumnDropout: true}
			if !c.Quick() {
				o.maxEvents = 300
			}
			c.Explore(n, func(r *rand.Rand, i int) *plan.Plan {
				oo := o
				// earliest/latest and mixed-type group keys are their own (rarer) classes: they currently crash
				// the node (known findings) and would otherwise hide everything else in the run
				withLatest, withMixed := r.IntN(6) == 0, r.IntN(5) == 0
				oo.queries = func(ix string, n int) []plan.Op { return genAggQueries(r, ix, withLatest, withMixed) }
				p := genHistory(r, oo)
				// the agile tree (pre-aggregation chosen from earlier queries) is an acceleration path: whether
				// it changes answers is C03's question; C04 computes from raw data and ingest-time statistics
				p.Knobs.Aggs = &boolF
				return p
			}, func(res *RunResult) (string, bool, any) {
				key, nt, sample := histShape(res)
				var qs []string
				for _, inc := range res.Plan.Incs {
					for _, op := range inc.Ops {
						if op.Kind == "query" && len(qs) < 6 {
							qs = append(qs, op.Text)
						}
					}
				}
				if sm, ok := sample.(map[string]any); ok {
					sm["queries"] = qs
				}
				return key + strings.Join(qs, ";"), nt, sample
			})
		},
		Oracle: func(res *RunResult) []Violation {
			vs, _ := walkHistory("C04", res, func(m *LogModel, op *plan.Op, q *qData, where string) []Violation {
				sb, _ := json.Marshal(op.Args["agg"])
				var a AggSpec
				if err := json.Unmarshal(sb, &a); err != nil || a.Kind == "" {
					return nil
				}
				return checkAgg("C04", a, m.ByIndex[op.Index][:m.Flushed[op.Index]], q, where)
			})
			return vs
		},
		Assumptions: []string{
			"measures are taken over numeric fields only; a group for events that lack a by-field is unconstrained (only its absence of side effects on other groups is checked)",
			"dc within max(2, 6%); perc50 within the inter-quartile range (deliberately generous sketch tolerances); earliest/latest may be any value among events tied at the extreme timestamp",
			"timechart bucket starts are taken from the answer; the oracle checks that they do not overlap, that every event falls in exactly one returned bucket and that each bucket aggregates exactly the events in [start, start+span)",
		},
		Components: stdComponents,
	})
}
