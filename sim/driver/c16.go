package main

import (
	"encoding/json"
	"fmt"
	"math/rand/v2"
	"strings"

	"simlens/plan"
)

// ProtoEvent is the model of one logical event delivered through one protocol.
type ProtoEvent struct {
	Proto   string            `json:"proto"`
	VID     string            `json:"vid"`
	Fields  map[string]string `json:"fields"` // logical string fields (besides vid)
	Code    int               `json:"code"`
	Msg     string            `json:"msg"`
	Carried bool              `json:"carried"` // the event carries its own time
	TMs     int64             `json:"t_ms"`
	Unit    string            `json:"unit,omitempty"`
	// Extra: stored column -> expected text, beyond the protocol's mapping of Fields/Msg/Code (OTLP: resource and
	// scope attributes, severity, trace and span ids)
	Extra map[string]string `json:"extra,omitempty"`
}

func genProtoPlan(r *rand.Rand, hours bool) *plan.Plan {
	// Every run is under the seeded scheduler. One simulated hour costs ~20 s of wall time under the baton (the
	// 10 ms admission poll loop), so the clock jumps between receipt, flush and query are minutes in most runs
	// and hours only in one thorough run in twenty (hours=true).
	scale := int64(1)
	if hours {
		scale = 60
	}
	k := plan.Knobs{Sched: true, Procs: []int{1, 2, 4}[r.IntN(3)], PQS: &boolF}
	p := &plan.Plan{Knobs: k, Params: map[string]any{}}
	inc := plan.Incarnation{Boot: "full", SchedSeed: r.Uint64()>>11 | 1}
	// the fake clock is moved to a known, odd instant first
	inc.Ops = append(inc.Ops, plan.Op{Kind: "advance", DurMs: int64(1000 + r.IntN(90_000))*scale})
	protos := []string{"es_bulk", "es_doc", "hec", "loki", "otlp_logs"}
	// short values that need JSON escapes (quote, backslash, newline, and the characters Go's encoder writes
	// as \u00XX) next to plain and non-ASCII ones
	msgs := []string{"hello world", "disk full", "GET /x?a=1&b=2", "ünïcode ✓", `say "hi"`, `C:\tmp\x`, "l1\nl2", "<b>&</b>", "tab\there"}
	n := 4 + r.IntN(10)
	vidN := 0
	// mk: one logical event and its encoding for the given protocol (a piece of a request body)
	mk := func(proto string) (ProtoEvent, any) {
		ev := ProtoEvent{Proto: proto, VID: fmt.Sprintf("x%d", vidN), Code: 100 + r.IntN(500), Msg: msgs[r.IntN(len(msgs))],
			Fields: map[string]string{"level": []string{"info", "error"}[r.IntN(2)], "svc": []string{"api", "db", `a"b`, `p\q`}[r.IntN(4)]}}
		vidN++
		ev.Carried = r.IntN(3) > 0
		// carried times lie clearly away from every instant of the simulated clock in this run
		// (2021-2023: the unit heuristics of the ingest path are calibrated for present-day epochs, and the
		// fake clock lives in the year 2000, so the two can never be confused)
		ev.TMs = 1_609_459_200_000 + int64(86_400_000)*int64(r.IntN(1000)) + int64(r.IntN(86_400_000))
		switch proto {
		case "es_bulk", "es_doc":
			doc := map[string]any{"vid": ev.VID, "code": ev.Code, "msg": ev.Msg}
			for k, v := range ev.Fields {
				doc[k] = v
			}
			if r.IntN(2) == 0 {
				// nested fields whose leaf key is the timestamp key (or another special-looking name) are ordinary
				// fields: only the top-level key carries the event time
				mt := fmt.Sprintf("mt-%d", r.IntN(1000))
				doc["meta"] = map[string]any{"timestamp": mt, "id": "m" + ev.VID, "_index": "nx"}
				doc["items"] = []any{map[string]any{"timestamp": mt + "-0", "n": "i0"}}
				ev.Extra = map[string]string{"meta.timestamp": mt, "meta.id": "m" + ev.VID, "meta._index": "nx", "items.0.timestamp": mt + "-0", "items.0.n": "i0"}
			}
			if proto == "es_bulk" && r.IntN(5) == 0 {
				// a Jaeger span document (index jaeger-*): its time is carried in startTimeMillis, there is no
				// `timestamp` field
				ev.Carried = true
				ev.Unit = "jaeger-startTimeMillis"
				doc["startTimeMillis"] = ev.TMs
				doc["_sim_index"] = "jaeger-span-2021-01-01"
				return ev, doc
			}
			if ev.Carried {
				switch r.IntN(3) {
				case 0:
					doc["timestamp"] = ev.TMs
					ev.Unit = "ms-number"
				case 1:
					ev.TMs -= ev.TMs % 1000
					doc["timestamp"] = ev.TMs / 1000
					ev.Unit = "s-number"
				default:
					doc["timestamp"] = fmt.Sprint(ev.TMs)
					ev.Unit = "ms-string"
				}
			}
			return ev, doc
		case "hec":
			evt := map[string]any{"vid": ev.VID, "code": ev.Code, "msg": ev.Msg}
			for k, v := range ev.Fields {
				evt[k] = v
			}
			if r.IntN(2) == 0 {
				mt := fmt.Sprintf("mt-%d", r.IntN(1000))
				evt["meta"] = map[string]any{"timestamp": mt, "time": "tm-" + mt}
				evt["timestamp_note"] = "n-" + mt
				ev.Extra = map[string]string{"event.meta.timestamp": mt, "event.meta.time": "tm-" + mt, "event.timestamp_note": "n-" + mt}
			}
			rec := map[string]any{"index": "p16", "event": evt, "sourcetype": "sim"}
			if ev.Carried {
				rec["time"] = float64(ev.TMs) / 1000
				ev.Unit = "hec-time-seconds"
			}
			return ev, rec
		case "otlp_logs":
			attrs := map[string]string{"vid": ev.VID, "msg2": ev.Msg}
			for k, v := range ev.Fields {
				attrs[k] = v
			}
			rec := map[string]any{"attrs": attrs, "ints": map[string]int64{"code": int64(ev.Code)}, "body": ev.Msg}
			ev.Extra = map[string]string{"attributes.msg2": ev.Msg}
			if r.IntN(2) == 0 {
				at := fmt.Sprintf("at-%d", r.IntN(1000))
				attrs["timestamp"] = at
				attrs["time_unix_nano"] = "tn-" + at
				ev.Extra["attributes.timestamp"] = at
				ev.Extra["attributes.time_unix_nano"] = "tn-" + at
			}
			if r.IntN(2) == 0 {
				sev := []string{"WARN", "ERROR", "DEBUG2"}[r.IntN(3)]
				rec["sev"] = sev
				ev.Extra["severity_text"] = sev
			}
			if r.IntN(2) == 0 {
				tid := fmt.Sprintf("%032x", r.Uint64())
				sid := fmt.Sprintf("%016x", r.Uint64()|1)
				rec["trace"], rec["span"] = tid, sid
				ev.Extra["trace_id"], ev.Extra["span_id"] = tid, sid
			}
			if ev.Carried {
				// nanosecond resolution below the millisecond is legal and must not disturb the stored millisecond;
				// the observed time (when the collector saw the record) is a different instant and is never the event time
				rec["t_ns"] = uint64(ev.TMs)*1_000_000 + uint64(r.IntN(1_000_000))
				rec["obs_ns"] = uint64(ev.TMs+int64(3_600_000*(1+r.IntN(48))))*1_000_000
				ev.Unit = "otlp-time-unix-nano"
			}
			return ev, rec
		default: // loki
			stream := map[string]string{"vid": ev.VID, "code": fmt.Sprint(ev.Code)}
			for k, v := range ev.Fields {
				stream[k] = v
			}
			ev.Carried = true // the push format always carries a time
			ev.Unit = "ns-string"
			return ev, map[string]any{"stream": stream, "values": []any{[]any{fmt.Sprint(ev.TMs * 1_000_000), ev.Msg}}}
		}
	}
	for i := 0; i < n; i++ {
		proto := protos[r.IntN(len(protos))]
		// half of the requests of the batch-capable protocols carry several events
		k := 1
		if proto != "es_doc" && r.IntN(2) == 0 {
			k = 2 + r.IntN(3)
		}
		var evs []ProtoEvent
		var pieces []any
		for j := 0; j < k; j++ {
			ev, piece := mk(proto)
			evs = append(evs, ev)
			pieces = append(pieces, piece)
		}
		var op plan.Op
		switch proto {
		case "es_bulk":
			var sb strings.Builder
			for _, pc := range pieces {
				index := "p16"
				if m, ok := pc.(map[string]any); ok {
					if ix, ok := m["_sim_index"].(string); ok {
						index = ix
						delete(m, "_sim_index")
					}
				}
				db, _ := json.Marshal(pc)
				sb.WriteString(`{"index":{"_index":"` + index + `"}}` + "\n" + string(db) + "\n")
			}
			op = plan.Op{Kind: "http", Body: sb.String(), Args: map[string]any{"server": "ingest", "method": "POST", "path": "/elastic/_bulk"}}
		case "es_doc":
			db, _ := json.Marshal(pieces[0])
			op = plan.Op{Kind: "http", Body: string(db), Args: map[string]any{"server": "ingest", "method": "POST", "path": "/elastic/p16/_doc"}}
		case "hec":
			var sb strings.Builder
			for _, pc := range pieces {
				rb, _ := json.Marshal(pc)
				sb.Write(rb)
				sb.WriteString("\n")
			}
			op = plan.Op{Kind: "http", Body: sb.String(), Args: map[string]any{"server": "ingest", "method": "POST", "path": "/services/collector/event"}}
		case "otlp_logs":
			// the records of one request are spread over 1-3 resource groups with different resource and scope
			// attributes; a record must be stored with the attributes of its own group
			ng := 1 + r.IntN(min(3, len(pieces)))
			groups := make([]map[string]any, ng)
			for gi := range groups {
				res := map[string]string{"service.name": fmt.Sprintf("svc%d-%d", i, gi), "host": []string{"h1", "h2", `h"3`}[r.IntN(3)]}
				if r.IntN(3) == 0 {
					res["siglensIndexName"] = "p16"
				}
				groups[gi] = map[string]any{"res": res, "scope": fmt.Sprintf("lib%d", r.IntN(3)), "scope_ver": "1." + fmt.Sprint(r.IntN(9)),
					"scope_attrs": map[string]string{"sk": fmt.Sprintf("sv%d", r.IntN(50))}, "split": r.IntN(3) == 0, "recs": []any{}}
			}
			for j, pc := range pieces {
				gi := j % ng
				g := groups[gi]
				g["recs"] = append(g["recs"].([]any), pc)
				res := g["res"].(map[string]string)
				for k, v := range res {
					evs[j].Extra["resource.attributes."+k] = v
				}
				evs[j].Extra["scope.name"] = g["scope"].(string)
				evs[j].Extra["scope.version"] = g["scope_ver"].(string)
				evs[j].Extra["scope.attributes.sk"] = g["scope_attrs"].(map[string]string)["sk"]
			}
			bb, _ := json.Marshal(map[string]any{"groups": groups})
			op = plan.Op{Kind: "otlp_logs", Body: string(bb), Args: map[string]any{}}
		case "loki":
			bb, _ := json.Marshal(map[string]any{"streams": pieces})
			op = plan.Op{Kind: "http", Body: string(bb), Args: map[string]any{"server": "ingest", "method": "POST", "path": "/loki/api/v1/push", "headers": map[string]any{"Content-Type": "application/json"}}}
		}
		var ems []any
		for _, ev := range evs {
			eb, _ := json.Marshal(ev)
			var em map[string]any
			_ = json.Unmarshal(eb, &em)
			ems = append(ems, em)
		}
		op.Args["event"] = ems[0]
		op.Args["events"] = ems
		inc.Ops = append(inc.Ops, op)
		if r.IntN(4) == 0 {
			inc.Ops = append(inc.Ops, plan.Op{Kind: "advance", DurMs: int64(r.IntN(9_000)) * scale})
		}
	}
	// clock jumps between receipt and flush, and between flush and query
	inc.Ops = append(inc.Ops, plan.Op{Kind: "advance", DurMs: int64(3*60_000+r.IntN(60_000)) * scale}, plan.Op{Kind: "flush"},
		plan.Op{Kind: "advance", DurMs: int64(2*60_000+r.IntN(60_000)) * scale},
		plan.Op{Kind: "query", Index: "*", Text: "*", Start: 1, End: 1_900_000_000_000, Size: 1000, Args: map[string]any{"includeNulls": true}})
	p.Incs = []plan.Incarnation{inc}
	return p
}

func protoOracle(prop string, res *RunResult) []Violation {
	var vs []Violation
	if len(res.Incs) == 0 {
		return nil
	}
	ir := res.Incs[0]
	if ab := ir.Abnormal(); ab != "" && ab != "harness" && ab != "wall-timeout" {
		site := ir.PanicSite()
		if ab == "hang" {
			site = ir.HangKind()
		}
		return []Violation{{Sig: prop + ":node-" + ab + ":" + site, Msg: trimTo(ir.Stderr, 1500)}}
	}
	type sent struct {
		ev       ProtoEvent
		lo, hi   int64 // arrival interval (simulated ms)
		accepted bool
		status   int
	}
	var sents []sent
	var prevMs int64
	var recs []map[string]interface{}
	for oi := range res.Plan.Incs[0].Ops {
		op := &res.Plan.Incs[0].Ops[oi]
		e := ir.Get(fmt.Sprint(oi))
		if e == nil {
			break
		}
		if _, ok := op.Args["event"]; ok && (op.Kind == "http" || op.Kind == "otlp_logs") {
			ems, _ := op.Args["events"].([]any)
			if len(ems) == 0 {
				ems = []any{op.Args["event"]}
			}
			var hr struct {
				Status   int   `json:"status"`
				Rejected int64 `json:"rejected"` // OTLP partial success
			}
			_ = json.Unmarshal(e.Data, &hr)
			for _, em := range ems {
				eb, _ := json.Marshal(em)
				var ev ProtoEvent
				_ = json.Unmarshal(eb, &ev)
				sents = append(sents, sent{ev: ev, lo: prevMs, hi: e.SimMs, accepted: (hr.Status == 200 || hr.Status == 201) && hr.Rejected == 0, status: hr.Status})
			}
		}
		if op.Kind == "query" && e.Err == "" {
			if q, err := decodeQ(e); err == nil {
				recs = q.Records
			}
		}
		prevMs = e.SimMs
	}
	if recs == nil {
		return vs
	}
	find := func(vid string) map[string]interface{} {
		for _, rec := range recs {
			for _, key := range []string{"vid", "event.vid", "attributes.vid"} {
				if v, ok := rec[key].(string); ok && v == vid {
					return rec
				}
			}
		}
		return nil
	}
	for _, s := range sents {
		cls := s.ev.Proto
		if !s.accepted {
			vs = append(vs, Violation{Sig: prop + ":" + cls + ":valid-event-rejected", Msg: fmt.Sprintf("%s %s: status %d", cls, s.ev.VID, s.status)})
			continue
		}
		rec := find(s.ev.VID)
		if rec == nil {
			vs = append(vs, Violation{Sig: prop + ":" + cls + ":event-not-stored", Msg: fmt.Sprintf("%s %s accepted but not found by a match-all over all indexes", cls, s.ev.VID)})
			continue
		}
		prefix := ""
		if s.ev.Proto == "hec" {
			prefix = "event."
		}
		if s.ev.Proto == "otlp_logs" {
			prefix = "attributes."
		}
		for k, want := range s.ev.Extra {
			if got, _ := rec[k].(string); got != want {
				vs = append(vs, Violation{Sig: prop + ":" + cls + ":attribute-not-preserved:" + strings.SplitN(k, ".", 2)[0], Msg: fmt.Sprintf("%s %s: column %s expected %q got %v", cls, s.ev.VID, k, want, rec[k])})
			}
		}
		for k, want := range s.ev.Fields {
			if got, _ := rec[prefix+k].(string); got != want {
				vs = append(vs, Violation{Sig: prop + ":" + cls + ":field-not-preserved", Msg: fmt.Sprintf("%s %s: field %s expected %q got %v", cls, s.ev.VID, prefix+k, want, rec[prefix+k])})
			}
		}
		msgKey := prefix + "msg"
		if s.ev.Proto == "loki" {
			msgKey = "line"
		}
		if s.ev.Proto == "otlp_logs" {
			msgKey = "body"
		}
		if got, _ := rec[msgKey].(string); got != s.ev.Msg {
			vs = append(vs, Violation{Sig: prop + ":" + cls + ":message-not-preserved", Msg: fmt.Sprintf("%s %s: %s expected %q got %v", cls, s.ev.VID, msgKey, s.ev.Msg, rec[msgKey])})
		}
		if f, ok := toF(rec[prefix+"code"]); !ok || int(f) != s.ev.Code {
			vs = append(vs, Violation{Sig: prop + ":" + cls + ":number-not-preserved", Msg: fmt.Sprintf("%s %s: code expected %d got %v", cls, s.ev.VID, s.ev.Code, rec[prefix+"code"])})
		}
		ts, ok := recTS(rec)
		if !ok {
			vs = append(vs, Violation{Sig: prop + ":" + cls + ":no-timestamp", Msg: s.ev.VID})
			continue
		}
		if s.ev.Carried {
			if ts != s.ev.TMs {
				kind := "carried-time-replaced"
				if ts >= s.lo && ts <= s.hi {
					kind = "carried-time-replaced-by-arrival-time"
				}
				vs = append(vs, Violation{Sig: fmt.Sprintf("%s:%s:%s:%s", prop, cls, kind, s.ev.Unit), Msg: fmt.Sprintf("%s %s carried time %d (%s) but is stored with %d (arrived in [%d,%d])", cls, s.ev.VID, s.ev.TMs, s.ev.Unit, ts, s.lo, s.hi)})
			}
		} else if ts < s.lo || ts > s.hi {
			vs = append(vs, Violation{Sig: prop + ":" + cls + ":arrival-time-not-used", Msg: fmt.Sprintf("%s %s carried no time, arrived in [%d,%d] on the simulated clock, stored with %d", cls, s.ev.VID, s.lo, s.hi, ts)})
		}
	}
	return dedupV(vs)
}

func init() {
	register(&Check{
		ID:    "C16",
		// "accepted, so it is stored and found" is judged after the plan's final flush and clock advances
		Pinned: func(op *plan.Op) bool { return op.Kind == "flush" || op.Kind == "advance" },
		Level: "exploration",
		Rule: "each case moves the fake clock to a seeded instant and delivers 4-13 logical events (string fields, a number, a message; with a carried time in one of the accepted units, or none) through the real HTTP routes of Elasticsearch bulk (also Jaeger span documents into a jaeger-* index, time in startTimeMillis), Elasticsearch single-document, Splunk HEC, Loki push (JSON) and OTLP logs (protobuf export requests with 1-3 resource groups that have their own resource and scope attributes, one or several scope entries, severity, trace and span ids, time_unix_nano with a sub-millisecond part and a different observed time, or no time), half of the events with nested objects / array elements / attributes whose leaf keys look special (timestamp, time, _index, time_unix_nano), with think times, under the seeded scheduler; then the clock jumps 3-4 min before the flush and 2-3 min before the query (hours instead of minutes in one thorough run in twenty). Oracle: every accepted event is stored once with its fields, nested fields, attributes of its own resource group and scope, ids and message under the protocol's documented mapping; stored time == carried time; == the simulated arrival instant iff none was carried. distinct = distinct (protocol, unit, carried) sequences; non-trivial = the run contains events with and without a carried time",
		Run: func(c *Ctx) {
			n := 80
			if !c.Quick() {
				n = 3000
			}
			c.Explore(n, func(r *rand.Rand, i int) *plan.Plan { return genProtoPlan(r, !c.Quick() && i%20 == 19) }, func(res *RunResult) (string, bool, any) {
				var sb strings.Builder
				carried, bare := false, false
				for _, op := range res.Plan.Incs[0].Ops {
					if em, ok := op.Args["event"].(map[string]any); ok {
						fmt.Fprintf(&sb, "%v/%v/%v|", em["proto"], em["unit"], em["carried"])
						if em["carried"] == true {
							carried = true
						} else {
							bare = true
						}
					}
				}
				return sb.String(), carried && bare, map[string]any{"events": trimTo(sb.String(), 300)}
			})
		},
		Oracle: func(res *RunResult) []Violation { return protoOracle("C16", res) },
		Assumptions: []string{
			"driven protocols: Elasticsearch bulk and single-document, Splunk HEC, Loki push (JSON), OTLP logs (protobuf; OTLP traces are driven by C12). OTLP metrics, Prometheus remote write and OpenTSDB are not driven by this check (OpenTSDB values/timestamps are covered by C08)",
			"the attribute-mapping half is input generation; the simulator's contribution is the controlled clock (exact arrival-instant equality, clock jumps between receipt, flush and query)",
		},
		Components: stdComponents,
	})
}
