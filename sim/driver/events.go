package main

import (
	"encoding/json"
	"fmt"
	"math"
	"math/rand/v2"
	"regexp"
	"sort"
	"strconv"
	"strings"
)

// Val is the model's view of one flattened field value.
type Val struct {
	K byte    `json:"k"` // 'i' int64, 'f' float64, 's' string, 'b' bool
	I int64   `json:"i,omitempty"`
	F float64 `json:"f,omitempty"`
	S string  `json:"s,omitempty"`
	B bool    `json:"b,omitempty"`
}

func (v Val) String() string {
	switch v.K {
	case 'i':
		return fmt.Sprintf("int:%d", v.I)
	case 'f':
		return fmt.Sprintf("float:%v", v.F)
	case 's':
		return fmt.Sprintf("str:%q", v.S)
	case 'b':
		return fmt.Sprintf("bool:%v", v.B)
	}
	return "?"
}

// Event is one generated log event: its JSON text and the flattened fields the property says must come
// back (the convention parent.child / parent.<index> is the one the packer documents and tests).
type Event struct {
	VID  string
	TS   int64
	Flat map[string]Val
	Raw  json.RawMessage
}

const simEpochMs = 946684800000 // 2000-01-01T00:00:00Z, where every bubble's clock starts

var intTokenRe = regexp.MustCompile(`^-?[0-9]+$`)

// numTok turns a JSON number token into the model value, mirroring the *statement* (an integer literal
// that fits int64 is an integer, everything else a float64).
func numTok(tok string) Val {
	if intTokenRe.MatchString(tok) {
		if i, err := strconv.ParseInt(tok, 10, 64); err == nil {
			return Val{K: 'i', I: i}
		}
	}
	f, _ := strconv.ParseFloat(tok, 64)
	return Val{K: 'f', F: f}
}

func jsonStr(s string) string {
	var sb strings.Builder
	enc := json.NewEncoder(&sb)
	enc.SetEscapeHTML(false) // keep & < > literal: the documents must not depend on optional escapes
	_ = enc.Encode(s)
	return strings.TrimSuffix(sb.String(), "\n")
}

// EvGen generates events of one schema family.
type EvGen struct {
	r        *rand.Rand
	family   string
	n        int
	cardPool int
	prefix   string
	// wholeLeft: agg family - how many more events carry a whole-number `f` (runs of events, hence whole batches
	// and segments, in which a fractional measure holds integers only)
	wholeLeft int
}

var families = []string{"flat", "nested", "mixed", "sparse", "card", "long", "numeric"}

func NewEvGen(r *rand.Rand, family, prefix string, cardPool int) *EvGen {
	return &EvGen{r: r, family: family, prefix: prefix, cardPool: cardPool}
}

var strPool = []string{"alpha", "Beta", "gamma delta", "", "x", "ERROR", "warn", "info", "héllo wörld", "日本語", "tab\there", "quote\"inside", "back\\slash", "new\nline", "/path/to/file.log", "a=b&c=d", "  padded  ", "null", "true", "{\"json\":1}", "emoji😀", "\u0001ctl"}
var intPool = []string{"0", "1", "-1", "7", "42", "1000", "-250", "9223372036854775807", "-9223372036854775808", "9007199254740993", "9007199254740992", "-9007199254740993", "2147483648", "4294967296", "65535", "65536", "255", "256"}
var floatPool = []string{"0.5", "-0.5", "3.0", "1.5e-7", "1e21", "1.7976931348623157e308", "5e-324", "2.2250738585072014e-308", "0.1", "0.30000000000000004", "-123.456", "1e3", "12345678.9", "3.141592653589793", "-0.0", "100.0001", "100.0002"}
var numStrPool = []string{"123", "007", "1e3", "-5", "3.14", "0x10", "1_000", " 12", "12 ", "+7", "NaN", "Inf", "1,000"}

func (g *EvGen) pick(pool []string) string { return pool[g.r.IntN(len(pool))] }

type jw struct {
	sb   strings.Builder
	flat map[string]Val
}

func (w *jw) scalar(key string, kind byte, tok string) string {
	switch kind {
	case 'n':
		w.flat[key] = numTok(tok)
		return tok
	case 's':
		w.flat[key] = Val{K: 's', S: tok}
		return jsonStr(tok)
	case 'b':
		w.flat[key] = Val{K: 'b', B: tok == "true"}
		return tok
	default: // null
		return "null"
	}
}

// value emits a random JSON value under the flattened key.
func (g *EvGen) value(w *jw, key string, depth int) string {
	x := g.r.IntN(100)
	switch {
	case depth < 3 && x < 15:
		n := g.r.IntN(4)
		parts := make([]string, 0, n)
		used := map[string]bool{}
		for i := 0; i < n; i++ {
			k := []string{"a", "b", "c", "id", "name", "v"}[g.r.IntN(6)]
			if used[k] {
				continue
			}
			used[k] = true
			parts = append(parts, jsonStr(k)+":"+g.value(w, key+"."+k, depth+1))
		}
		return "{" + strings.Join(parts, ",") + "}"
	case depth < 3 && x < 28:
		n := g.r.IntN(4)
		parts := make([]string, 0, n)
		for i := 0; i < n; i++ {
			parts = append(parts, g.value(w, fmt.Sprintf("%s.%d", key, i), depth+1))
		}
		return "[" + strings.Join(parts, ",") + "]"
	case x < 50:
		return w.scalar(key, 's', g.pick(strPool))
	case x < 68:
		return w.scalar(key, 'n', g.pick(intPool))
	case x < 82:
		return w.scalar(key, 'n', g.pick(floatPool))
	case x < 92:
		return w.scalar(key, 'b', []string{"true", "false"}[g.r.IntN(2)])
	default:
		return w.scalar(key, 0, "")
	}
}

// Next generates one event with the given timestamp.
func (g *EvGen) Next(ts int64) *Event {
	if g.family == "agg" {
		return g.nextAgg(ts)
	}
	if g.family == "sortable" {
		return g.nextSortable(ts)
	}
	if g.family == "layout" {
		return g.nextLayout(ts)
	}
	g.n++
	vid := fmt.Sprintf("%s%d", g.prefix, g.n)
	w := &jw{flat: map[string]Val{}}
	parts := []string{`"vid":` + w.scalar("vid", 's', vid), fmt.Sprintf(`"timestamp":%d`, ts)}
	add := func(k, v string) { parts = append(parts, jsonStr(k)+":"+v) }
	r := g.r
	switch g.family {
	case "flat":
		add("level", w.scalar("level", 's', []string{"info", "warn", "error", "debug"}[r.IntN(4)]))
		add("code", w.scalar("code", 'n', g.pick(intPool)))
		add("ratio", w.scalar("ratio", 'n', g.pick(floatPool)))
		add("ok", w.scalar("ok", 'b', []string{"true", "false"}[r.IntN(2)]))
		add("msg", w.scalar("msg", 's', g.pick(strPool)))
	case "nested":
		add("level", w.scalar("level", 's', []string{"info", "warn", "error"}[r.IntN(3)]))
		for _, k := range []string{"obj", "arr", "deep"} {
			if r.IntN(4) > 0 {
				add(k, g.value(w, k, 0))
			}
		}
	case "mixed":
		// one column holding several types across events
		switch r.IntN(6) {
		case 0:
			add("mix", w.scalar("mix", 'n', g.pick(intPool)))
		case 1:
			add("mix", w.scalar("mix", 'n', g.pick(floatPool)))
		case 2, 3:
			add("mix", w.scalar("mix", 's', g.pick(strPool)))
		case 4:
			add("mix", w.scalar("mix", 'b', []string{"true", "false"}[r.IntN(2)]))
		default:
			add("mix", w.scalar("mix", 0, ""))
		}
		// int/float mixing only (no strings)
		if r.IntN(2) == 0 {
			add("numix", w.scalar("numix", 'n', g.pick(intPool)))
		} else {
			add("numix", w.scalar("numix", 'n', g.pick(floatPool)))
		}
		add("n", w.scalar("n", 'n', strconv.Itoa(g.n)))
	case "sparse":
		add("always", w.scalar("always", 'n', strconv.Itoa(g.n)))
		if g.n > 3 && r.IntN(3) == 0 {
			add("late", w.scalar("late", 's', g.pick(strPool)))
		}
		if r.IntN(5) == 0 {
			add("rare", w.scalar("rare", 'n', g.pick(intPool)))
		}
		if g.n%7 == 0 {
			add(fmt.Sprintf("once_%d", g.n), w.scalar(fmt.Sprintf("once_%d", g.n), 's', "only-here"))
		}
		if r.IntN(4) == 0 {
			add("nul", w.scalar("nul", 0, ""))
		}
	case "card":
		// cardinality around the dictionary limit: same-length and different-length values
		p := g.cardPool
		if p <= 0 {
			p = 5
		}
		add("card", w.scalar("card", 's', fmt.Sprintf("v%04d", r.IntN(p))))
		add("cardvar", w.scalar("cardvar", 's', strings.Repeat("z", r.IntN(p)%17)+strconv.Itoa(r.IntN(p))))
		add("cardnum", w.scalar("cardnum", 'n', strconv.Itoa(r.IntN(p))))
		add("fixed", w.scalar("fixed", 's', "constant"))
	case "long":
		ln := []int{1, 10, 200, 3000, 20000, 40000}[r.IntN(6)]
		add("long", w.scalar("long", 's', strings.Repeat(string(rune('a'+r.IntN(26))), ln)+fmt.Sprint(g.n)))
		add("short", w.scalar("short", 's', g.pick(strPool)))
	case "numeric":
		// numeric strings sharing a column with numbers (weaker class, see oracle)
		if r.IntN(2) == 0 {
			add("ns", w.scalar("ns", 'n', g.pick(intPool)))
		} else {
			add("ns", w.scalar("ns", 's', g.pick(numStrPool)))
		}
		add("f", w.scalar("f", 'n', g.pick(floatPool)))
		add("i", w.scalar("i", 'n', g.pick(intPool)))
	}
	raw := "{" + strings.Join(parts, ",") + "}"
	return &Event{VID: vid, TS: ts, Flat: w.flat, Raw: json.RawMessage(raw)}
}

// ---- comparison of a returned record with the model ------------------------------------------------

// ColInfo says what kinds of values a column held in the model of one index.
type ColInfo struct{ hasNum, hasNonNumStr, hasNumStr, hasBool bool }

// mixed: the column held values of more than one kind (number / string / bool) in the model. SigLens
// normalises such a column per block (consolidateColumnTypes); the statement's relaxation "numbers that
// shared a column with non-numeric strings may come back as their decimal text" is applied to every value
// of a mixed column in its canonical text form (decimal text, "true"/"false").
func (c *ColInfo) mixed() bool {
	if c == nil {
		return false
	}
	n := 0
	if c.hasNum {
		n++
	}
	if c.hasNonNumStr || c.hasNumStr {
		n++
	}
	if c.hasBool {
		n++
	}
	return n >= 2
}

func colInfos(evs []*Event) map[string]*ColInfo {
	out := map[string]*ColInfo{}
	for _, e := range evs {
		for k, v := range e.Flat {
			ci := out[k]
			if ci == nil {
				ci = &ColInfo{}
				out[k] = ci
			}
			switch v.K {
			case 'i', 'f':
				ci.hasNum = true
			case 'b':
				ci.hasBool = true
			case 's':
				if _, err := strconv.ParseFloat(v.S, 64); err == nil {
					ci.hasNumStr = true
				} else {
					ci.hasNonNumStr = true
				}
			}
		}
	}
	return out
}

// cmpField compares one expected value with what the query returned (decoded with UseNumber).
// It returns "" when equal under the statement's relaxations, else a mismatch class.
func cmpField(exp Val, act interface{}, ci *ColInfo) string {
	switch exp.K {
	case 's':
		if s, ok := act.(string); ok {
			if s == exp.S {
				return ""
			}
			if strings.HasPrefix(s, "!float:") {
				if _, err := strconv.ParseFloat(exp.S, 64); err == nil {
					return "numeric-string-returned-as-different-number-text"
				}
			}
			return "string-differs"
		}
		if n, ok := act.(json.Number); ok {
			// a numeric string that came back as a number
			if f, err := strconv.ParseFloat(exp.S, 64); err == nil {
				if af, err2 := n.Float64(); err2 == nil && (af == f || (math.IsNaN(af) && math.IsNaN(f))) {
					if n.String() == exp.S && ci.mixed() {
						return "" // same text, only the JSON type changed inside a mixed column
					}
					return "numeric-string-returned-as-different-number-text"
				}
			}
			return "string-returned-as-other-number"
		}
		if s, ok := act.(string); ok && strings.HasPrefix(s, "!float:") {
			return "numeric-string-returned-as-different-number-text"
		}
		return fmt.Sprintf("string-returned-as-%T", act)
	case 'b':
		if b, ok := act.(bool); ok {
			if b == exp.B {
				return ""
			}
			return "bool-differs"
		}
		if s, ok := act.(string); ok && s == strconv.FormatBool(exp.B) && ci.mixed() {
			return ""
		}
		return fmt.Sprintf("bool-returned-as-%T", act)
	case 'i':
		switch a := act.(type) {
		case json.Number:
			if i, err := strconv.ParseInt(a.String(), 10, 64); err == nil {
				if i == exp.I {
					return ""
				}
				return "int-differs"
			}
			if f, err := a.Float64(); err == nil {
				if f == float64(exp.I) && float64(int64(f)) == f && int64(f) == exp.I {
					return "" // exact integral float rendering
				}
				if f == float64(exp.I) {
					return "int-lost-precision-as-float"
				}
			}
			return "int-differs"
		case string:
			if ci.mixed() {
				if i, err := strconv.ParseInt(a, 10, 64); err == nil && i == exp.I {
					return "" // decimal text, allowed relaxation
				}
				if f, err := strconv.ParseFloat(a, 64); err == nil && f == float64(exp.I) && int64(f) == exp.I {
					return ""
				}
				return "int-text-differs"
			}
			return "int-returned-as-text-in-unmixed-column"
		}
		return fmt.Sprintf("int-returned-as-%T", act)
	case 'f':
		switch a := act.(type) {
		case json.Number:
			if f, err := a.Float64(); err == nil && f == exp.F {
				return ""
			}
			return "float-differs"
		case string:
			if strings.HasPrefix(a, "!float:") {
				return "float-nonfinite"
			}
			if ci.mixed() {
				if f, err := strconv.ParseFloat(a, 64); err == nil && f == exp.F {
					return ""
				}
				return "float-text-differs"
			}
			return "float-returned-as-text-in-unmixed-column"
		}
		return fmt.Sprintf("float-returned-as-%T", act)
	}
	return "unknown-kind"
}

// cmpRecord compares a returned record with the model event. Returns mismatch classes (sorted, unique).
func cmpRecord(e *Event, rec map[string]interface{}, cols map[string]*ColInfo) (classes []string, detail string) {
	seen := map[string]bool{}
	addc := func(c, d string) {
		if !seen[c] {
			seen[c] = true
			classes = append(classes, c)
			if detail == "" {
				detail = d
			}
		}
	}
	for k, exp := range e.Flat {
		act, ok := rec[k]
		if !ok || act == nil {
			addc("field-missing", fmt.Sprintf("vid=%s field %q expected %v, absent", e.VID, k, exp))
			continue
		}
		if c := cmpField(exp, act, cols[k]); c != "" {
			addc(c, fmt.Sprintf("vid=%s field %q expected %v got %T %v", e.VID, k, exp, act, trimTo(fmt.Sprint(act), 80)))
		}
	}
	for k, act := range rec {
		if act == nil {
			continue
		}
		if _, ok := e.Flat[k]; ok {
			continue
		}
		if k == "timestamp" {
			if n, ok := act.(json.Number); ok {
				if i, err := strconv.ParseInt(n.String(), 10, 64); err == nil && i == e.TS {
					continue
				}
			}
			addc("timestamp-differs", fmt.Sprintf("vid=%s timestamp expected %d got %v", e.VID, e.TS, act))
			continue
		}
		if k == "_index" {
			continue
		}
		addc("field-invented", fmt.Sprintf("vid=%s unexpected field %q=%v", e.VID, k, trimTo(fmt.Sprint(act), 80)))
	}
	if _, ok := rec["timestamp"]; !ok {
		addc("timestamp-missing", fmt.Sprintf("vid=%s no timestamp", e.VID))
	}
	sort.Strings(classes)
	return
}
