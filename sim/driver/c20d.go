package main

import (
	"encoding/json"
	"fmt"
	"math/rand/v2"
	"os"
	"path/filepath"
	"strings"

	"simlens/plan"
)

// ---- C20 part C: a crash inside a saved-object operation ----------------------------------------------------
//
// The file-backed stores (dashboards and folders, saved queries, index aliases, lookup files) go through the
// disk seam, so every mutating fs call of an operation is a crash point: the process _exits there, the next
// incarnation boots and reads everything back. The operation in flight may or may not have taken effect; every
// other object must be exactly as last acknowledged, and the node must start. (Contact points and alerts live
// in sqlite, whose file I/O is its own: not enumerated.)

var fileBackedStores = []string{"dash", "usq", "alias", "lookup"}

func genCrudCrashPlan(r *rand.Rand) *plan.Plan {
	k := plan.Knobs{Sched: true, Procs: 2, PQS: &boolF}
	p := &plan.Plan{Knobs: k, Params: map[string]any{"part": "crud", "fs_trace": true, "crash_mode": true}}
	orgs := [][]int64{{0}, {0, 7}}[r.IntN(2)]
	p.Knobs.Orgs = append([]int64(nil), orgs...)
	var stores []string
	for _, s := range fileBackedStores {
		if r.IntN(2) == 0 {
			stores = append(stores, s)
		}
	}
	if len(stores) == 0 {
		stores = []string{fileBackedStores[r.IntN(len(fileBackedStores))]}
	}
	m := newCrudModel()
	g := &crudGen{r: r, m: m, prefix: "M", orgs: orgs, stores: stores, vt: map[string]bool{}}
	inc := plan.Incarnation{Boot: "full", SchedSeed: r.Uint64()>>11 | 1}
	for i := 0; i < 8+r.IntN(14); i++ {
		inc.Ops = append(inc.Ops, crudPlanOp(g.next()))
	}
	inc1 := plan.Incarnation{Boot: "full", SchedSeed: r.Uint64()>>11 | 1}
	for _, c := range g.sweep(orgs, stores) {
		inc1.Ops = append(inc1.Ops, crudPlanOp(c))
	}
	p.Incs = []plan.Incarnation{inc, inc1}
	p.Params["stores"] = stores
	return p
}

// crudCrashOracle: the keyed-store oracle under "the operation in flight at the crash may or may not have taken
// effect".
func crudCrashOracle(prop string, res *RunResult) []Violation {
	if len(res.Incs) == 0 {
		return nil
	}
	ir0 := res.Incs[0]
	if ir0.Exit != 77 {
		return crudOracle(prop, res) // the crash point was not reached (or the uninterrupted base run)
	}
	// the operation in flight = the first one without a return entry
	inflight := -1
	for oi := range res.Plan.Incs[0].Ops {
		if ir0.Get(fmt.Sprint(oi)) == nil {
			inflight = oi
			break
		}
	}
	tag := "between-operations"
	if inflight >= 0 {
		if cm, ok := res.Plan.Clone().Incs[0].Ops[inflight].Args["c"].(map[string]any); ok {
			tag = cop(cm).s("t")
		}
	}
	resig := func(vs []Violation) []Violation {
		var out []Violation
		for _, v := range vs {
			kind := v.Sig[strings.LastIndex(v.Sig, ":")+1:]
			if strings.Contains(v.Sig, ":node-") {
				kind = v.Sig[strings.Index(v.Sig, ":node-")+1:]
			}
			out = append(out, Violation{Sig: fmt.Sprintf("%s:crud-crash:during-%s:%s", prop, tag, kind), Msg: "crash " + fmt.Sprint(res.Plan.Incs[0].Faults) + " during " + tag + ": " + v.Msg})
		}
		return dedupV(out)
	}
	if len(res.Incs) > 1 {
		if b := res.Incs[1].Get("boot"); b != nil && b.Err != "" {
			return resig([]Violation{{Sig: prop + ":crud:boot-failed-after-crash", Msg: b.Err}})
		}
	}
	a := crudOracle(prop, res) // variant A: not applied
	if len(a) == 0 || inflight < 0 {
		return resig(a)
	}
	// variant B: applied - a synthetic acknowledgement for the operation in flight
	op := &res.Plan.Incs[0].Ops[inflight]
	syn := &plan.Entry{Inc: 0, Idx: fmt.Sprint(inflight), Kind: op.Kind, Data: json.RawMessage(`{"status":200,"body":""}`)}
	ir0.Entries = append(ir0.Entries, syn)
	ir0.byIdx = nil // the index of entries is cached
	b := crudOracle(prop, res)
	ir0.Entries = ir0.Entries[:len(ir0.Entries)-1]
	ir0.byIdx = nil
	if os.Getenv("VERIF_DEBUG_CRASH") != "" {
		for _, v := range a {
			fmt.Fprintf(os.Stderr, "VARIANT-A %s | %s\n", v.Sig, trimTo(v.Msg, 300))
		}
		for _, v := range b {
			fmt.Fprintf(os.Stderr, "VARIANT-B %s | %s\n", v.Sig, trimTo(v.Msg, 300))
		}
	}
	if len(b) == 0 {
		return nil
	}
	if len(b) < len(a) {
		return resig(b)
	}
	return resig(a)
}

func runC20Crash(c *Ctx) {
	nHist, perHist := 3, 30
	if !c.Quick() {
		nHist, perHist = 40, 1<<30
	}
	type job struct {
		p    *plan.Plan
		hist int
		k    int
		call string
	}
	var jobs []job
	c.Parallel(nHist, 0, func(i int) {
		r := c.Rng(uint64(7000 + i))
		p := genCrudCrashPlan(r)
		p.Property = "C20"
		p.Seed = c.Seed*1_000_003 + uint64(7000+i)
		res, err := RunPlan(p, genericBetween)
		if err != nil || harnessTrouble(res) != "" {
			c.Harness(fmt.Sprintf("crash base %d: %v", i, err))
			return
		}
		vs := c.Check.Oracle(res)
		c.Account(res, fmt.Sprintf("crash-h%d-uninterrupted", i), true, nil)
		c.Report(p, vs)
		// fs calls made by the operations (after boot)
		lo := 0
		if b := res.Incs[0].Get("boot"); b != nil {
			lo = b.FsOps
		}
		hi := lo
		for oi := range p.Incs[0].Ops {
			if e := res.Incs[0].Get(fmt.Sprint(oi)); e != nil && e.FsOps > hi {
				hi = e.FsOps
			}
		}
		tr := fsTraceOf(res.Incs[0])
		res.Cleanup()
		var ks []int
		for k := lo + 1; k <= hi && k <= len(tr); k++ {
			ks = append(ks, k)
		}
		if len(ks) > perHist {
			r.Shuffle(len(ks), func(a, b int) { ks[a], ks[b] = ks[b], ks[a] })
			ks = ks[:perHist]
		}
		c.mu.Lock()
		for _, k := range ks {
			jobs = append(jobs, job{p: p, hist: i, k: k, call: tr[k-1].Op + " " + crudFileKind(tr[k-1].Path)})
		}
		c.mu.Unlock()
	})
	c.Parallel(len(jobs), 0, func(j int) {
		jb := jobs[j]
		p := jb.p.Clone()
		p.Incs[0].Faults = []plan.Fault{{Kind: "crash_after", At: jb.k}}
		p.Note = fmt.Sprintf("crud history %d: crash after fs call %d (%s)", jb.hist, jb.k, jb.call)
		res, err := RunPlan(p, genericBetween)
		if err != nil || harnessTrouble(res) != "" {
			c.Harness(fmt.Sprintf("crash job %d: %v", j, err))
			return
		}
		defer res.Cleanup()
		vs := c.Check.Oracle(res)
		c.Account(res, fmt.Sprintf("crash-h%d-k%d", jb.hist, jb.k), true, map[string]any{"part": "crud-crash", "history": jb.hist, "crash_after_fs_call": jb.k, "call": jb.call})
		c.Probe("crud_crash@"+jb.call, 1)
		c.Report(p, vs)
	})
	c.SetExtra("crud_crash_points_run", len(jobs))
}

func crudFileKind(p string) string {
	base := filepath.Base(p)
	switch {
	case strings.HasPrefix(base, "folder_structure"):
		return "folder_structure.json"
	case strings.Contains(p, "/dashboards/details/"):
		return "dashboard-details"
	case strings.HasPrefix(base, "usqinfo"):
		return "usqinfo"
	case strings.Contains(p, "/aliases/"):
		return "alias-file"
	case strings.Contains(p, "/lookups/"):
		return "lookup-file"
	case strings.Contains(base, "vtabledata") || strings.HasSuffix(base, ".txt"):
		return "virtual-table-list"
	}
	return "other"
}
