package main

import (
	"encoding/json"
	"fmt"
	"math"
	"math/rand/v2"
	"regexp"
	"sort"
	"strings"

	"simlens/plan"
)

// ---- query specifications (the oracle evaluates the spec, it never parses PromQL) ----------------------------

type Matcher struct {
	L  string `json:"l"`
	Op string `json:"op"` // = != =~ !~
	V  string `json:"v"`
}

type QSpec struct {
	Form     string    `json:"form"` // select | agg | binvv | binvs | ratio
	Metric   string    `json:"metric,omitempty"`
	Matchers []Matcher `json:"matchers,omitempty"`
	Fn       string    `json:"fn,omitempty"` // sum min max avg count
	By       []string  `json:"by,omitempty"`
	Without  []string  `json:"without,omitempty"`
	HasBy    bool      `json:"has_by,omitempty"`
	Op       string    `json:"binop,omitempty"`
	RMetric  string    `json:"rmetric,omitempty"`
	Scalar   float64   `json:"scalar,omitempty"`
}

func (q QSpec) selectorText(metric string) string {
	if len(q.Matchers) == 0 {
		return metric
	}
	var ms []string
	for _, m := range q.Matchers {
		ms = append(ms, fmt.Sprintf("%s%s%q", m.L, m.Op, m.V))
	}
	return metric + "{" + strings.Join(ms, ",") + "}"
}

func (q QSpec) Text() string {
	sel := q.selectorText(q.Metric)
	switch q.Form {
	case "select":
		return sel
	case "agg":
		switch {
		case q.HasBy:
			return fmt.Sprintf("%s by (%s) (%s)", q.Fn, strings.Join(q.By, ","), sel)
		case len(q.Without) > 0:
			return fmt.Sprintf("%s without (%s) (%s)", q.Fn, strings.Join(q.Without, ","), sel)
		}
		return fmt.Sprintf("%s(%s)", q.Fn, sel)
	case "binvv":
		return fmt.Sprintf("%s %s %s", sel, q.Op, q.selectorText(q.RMetric))
	case "binvs":
		return fmt.Sprintf("%s %s %s", sel, q.Op, fmtFloat(q.Scalar))
	case "ratio":
		return fmt.Sprintf("sum by (%s) (%s) / count by (%s) (%s)", strings.Join(q.By, ","), sel, strings.Join(q.By, ","), sel)
	}
	return sel
}

func matchLabels(ms []Matcher, labels map[string]string) bool {
	for _, m := range ms {
		v := labels[m.L]
		switch m.Op {
		case "=":
			if v != m.V {
				return false
			}
		case "!=":
			if v == m.V {
				return false
			}
		case "=~", "!~":
			re, err := regexp.Compile("^(?:" + m.V + ")$")
			if err != nil {
				return false
			}
			if re.MatchString(v) != (m.Op == "=~") {
				return false
			}
		}
	}
	return true
}

type vec map[string]map[uint32]float64 // canonical label key -> ts -> value

func labelKey(labels map[string]string) string { return seriesKeyOf("", labels) }

// evalSpec is the reference evaluator for the stated subset.
func evalSpec(q QSpec, m *MetricsModel) (vec, map[string]map[string]string) {
	labelsOf := map[string]map[string]string{}
	sel := func(metric string) vec {
		out := vec{}
		for key, dps := range m.Series {
			name, labels := parseSeriesID(key)
			if name != metric || !matchLabels(q.Matchers, labels) {
				continue
			}
			k := labelKey(labels)
			labelsOf[k] = labels
			out[k] = map[uint32]float64{}
			for _, d := range dps {
				out[k][d.TS] = d.V
			}
		}
		return out
	}
	agg := func(in vec, fn string, group func(map[string]string) map[string]string) vec {
		type acc struct {
			sum, min, max float64
			n             int
		}
		accs := map[string]map[uint32]*acc{}
		for k, pts := range in {
			gl := group(labelsOf[k])
			gk := labelKey(gl)
			labelsOf[gk] = gl
			if accs[gk] == nil {
				accs[gk] = map[uint32]*acc{}
			}
			for t, v := range pts {
				a := accs[gk][t]
				if a == nil {
					a = &acc{min: v, max: v}
					accs[gk][t] = a
				}
				a.sum += v
				a.min = math.Min(a.min, v)
				a.max = math.Max(a.max, v)
				a.n++
			}
		}
		out := vec{}
		for gk, ts := range accs {
			out[gk] = map[uint32]float64{}
			for t, a := range ts {
				switch fn {
				case "sum":
					out[gk][t] = a.sum
				case "min":
					out[gk][t] = a.min
				case "max":
					out[gk][t] = a.max
				case "avg":
					out[gk][t] = a.sum / float64(a.n)
				case "count":
					out[gk][t] = float64(a.n)
				}
			}
		}
		return out
	}
	grouper := func() func(map[string]string) map[string]string {
		switch {
		case q.HasBy || q.Form == "ratio":
			return func(l map[string]string) map[string]string {
				o := map[string]string{}
				for _, b := range q.By {
					if v, ok := l[b]; ok {
						o[b] = v
					}
				}
				return o
			}
		case len(q.Without) > 0:
			return func(l map[string]string) map[string]string {
				o := map[string]string{}
				for k, v := range l {
					skip := false
					for _, w := range q.Without {
						if w == k {
							skip = true
						}
					}
					if !skip {
						o[k] = v
					}
				}
				return o
			}
		}
		return func(map[string]string) map[string]string { return map[string]string{} }
	}
	binop := func(op string, a, b float64) float64 {
		switch op {
		case "+":
			return a + b
		case "-":
			return a - b
		case "*":
			return a * b
		case "/":
			return a / b
		}
		return math.NaN()
	}
	switch q.Form {
	case "select":
		return sel(q.Metric), labelsOf
	case "agg":
		return agg(sel(q.Metric), q.Fn, grouper()), labelsOf
	case "ratio":
		s := agg(sel(q.Metric), "sum", grouper())
		c := agg(sel(q.Metric), "count", grouper())
		out := vec{}
		for k, pts := range s {
			out[k] = map[uint32]float64{}
			for t, v := range pts {
				out[k][t] = v / c[k][t]
			}
		}
		return out, labelsOf
	case "binvs":
		in := sel(q.Metric)
		out := vec{}
		for k, pts := range in {
			out[k] = map[uint32]float64{}
			for t, v := range pts {
				out[k][t] = binop(q.Op, v, q.Scalar)
			}
		}
		return out, labelsOf
	case "binvv":
		l, r := sel(q.Metric), sel(q.RMetric)
		out := vec{}
		for k, lp := range l {
			rp, ok := r[k]
			if !ok {
				continue
			}
			pts := map[uint32]float64{}
			for t, v := range lp {
				if rv, ok := rp[t]; ok {
					pts[t] = binop(q.Op, v, rv)
				}
			}
			if len(pts) > 0 {
				out[k] = pts
			}
		}
		return out, labelsOf
	}
	return vec{}, labelsOf
}

func closeEnough(a, b float64) bool {
	if a == b {
		return true
	}
	if math.IsNaN(a) || math.IsNaN(b) || math.IsInf(a, 0) || math.IsInf(b, 0) {
		return (math.IsNaN(a) && math.IsNaN(b)) || a == b
	}
	return math.Abs(a-b) <= 1e-9*math.Max(math.Abs(a), math.Abs(b))
}

// checkPromQL compares one answer with the reference evaluation.
func checkPromQL(prop string, q QSpec, m *MetricsModel, ans *mqData, where string) []Violation {
	var vs []Violation
	cls := q.Form
	if q.Form == "agg" {
		cls = q.Fn
	}
	seenL := map[string]bool{}
	for _, mt := range q.Matchers {
		if seenL[mt.L] {
			cls = "two-matchers-on-one-label"
		}
		seenL[mt.L] = true
	}
	if len(ans.Errors) > 0 {
		vs = append(vs, Violation{Sig: prop + ":" + cls + ":query-reports-errors", Msg: where + ": " + strings.Join(ans.Errors, "; ")})
	}
	want, _ := evalSpec(q, m)
	got := vec{}
	for sid, pts := range ans.Series {
		_, labels := parseSeriesID(sid)
		k := labelKey(labels)
		if _, dup := got[k]; dup {
			vs = append(vs, Violation{Sig: prop + ":" + cls + ":group-returned-twice", Msg: where + ": " + sid})
		}
		got[k] = map[uint32]float64{}
		for _, p := range pts {
			got[k][p.T] = math.Float64frombits(bitsOf(p))
		}
	}
	for k, wp := range want {
		if len(wp) == 0 {
			continue
		}
		gp, ok := got[k]
		if !ok {
			vs = append(vs, Violation{Sig: prop + ":" + cls + ":group-missing", Msg: fmt.Sprintf("%s: %s: expected output series %s missing; got %v", where, q.Text(), k, vecKeys(got))})
			continue
		}
		for t, wv := range wp {
			gv, ok := gp[t]
			if !ok {
				vs = append(vs, Violation{Sig: prop + ":" + cls + ":sample-missing", Msg: fmt.Sprintf("%s: %s: series %s has no sample at t=%d (expected %v)", where, q.Text(), k, t, wv)})
				break
			}
			if !closeEnough(gv, wv) {
				vs = append(vs, Violation{Sig: prop + ":" + cls + ":value-wrong", Msg: fmt.Sprintf("%s: %s: series %s t=%d expected %v got %v", where, q.Text(), k, t, wv, gv)})
				break
			}
		}
		for t := range gp {
			if _, ok := wp[t]; !ok {
				vs = append(vs, Violation{Sig: prop + ":" + cls + ":sample-invented", Msg: fmt.Sprintf("%s: %s: series %s has an unexpected sample at t=%d = %v", where, q.Text(), k, t, gp[t])})
				break
			}
		}
	}
	for k, gp := range got {
		if wp, ok := want[k]; (!ok || len(wp) == 0) && len(gp) > 0 {
			vs = append(vs, Violation{Sig: prop + ":" + cls + ":group-invented", Msg: fmt.Sprintf("%s: %s: unexpected output series %s; expected %v", where, q.Text(), k, vecKeys(want))})
		}
	}
	return vs
}

func vecKeys(v vec) []string {
	var out []string
	for k := range v {
		out = append(out, k)
	}
	sort.Strings(out)
	return out
}

// ---- generator ---------------------------------------------------------------------------------------------

func genPromQLHistory(r *rand.Rand, quick bool) *plan.Plan {
	k := plan.Knobs{Sched: true, Procs: []int{1, 2, 4, 8}[r.IntN(4)], MetricsKnobs: map[string]int{}}
	if r.IntN(2) == 0 {
		k.MetricsKnobs["max_block_bytes"] = 60 + r.IntN(500)
	}
	if r.IntN(3) == 0 {
		k.MetricsKnobs["max_segment_bytes"] = 300 + r.IntN(2500)
	}
	p := &plan.Plan{Knobs: k, Params: map[string]any{}}
	step := uint32([]int{10, 15, 60}[r.IntN(3)])
	t0 := uint32(simEpochMs/1000) + 600
	t0 -= t0 % step
	// values that contain one another ("a" / "ab", "web-2" / "xweb-2", "x" / "xx"): an alternation a|web-2 must
	// match whole values only
	hosts := []string{"a", "b", "c", "web-1", "ab", "xweb-2", "web-2"}
	dcs := []string{"x", "y", "xx", "eu.west"}
	envs := []string{"prod", "dev"}
	metrics := []string{"cpu", "mem"}
	type ser struct {
		metric string
		tags   map[string]string
	}
	var sers []ser
	nser := 2 + r.IntN(8)
	seen := map[string]bool{}
	for len(sers) < nser {
		// every series carries every label: how a matcher treats a label that is absent is not part of
		// the statement, so it is not exercised
		tags := map[string]string{"host": hosts[r.IntN(len(hosts))], "dc": dcs[r.IntN(len(dcs))], "env": envs[r.IntN(2)]}
		key := labelKey(tags)
		if seen[key] {
			continue
		}
		seen[key] = true
		// the same label set under both metrics (so vector arithmetic has matches), sometimes only one
		sers = append(sers, ser{"cpu", tags})
		if r.IntN(4) > 0 {
			sers = append(sers, ser{"mem", tags})
		}
	}
	nsteps := 6 + r.IntN(20)
	if !quick {
		nsteps = 10 + r.IntN(50)
	}
	// the grid, split into ingest rounds at random step boundaries
	cuts := map[int]bool{}
	for i := 0; i < 1+r.IntN(4); i++ {
		cuts[1+r.IntN(nsteps-1)] = true
	}
	genQueries := func() []plan.Op {
		var ops []plan.Op
		nq := 6 + r.IntN(8)
		for i := 0; i < nq; i++ {
			q := QSpec{Metric: metrics[r.IntN(2)]}
			if r.IntN(2) == 0 {
				nm := 1 + r.IntN(2)
				lbls := []string{"host", "dc", "env"}
				r.Shuffle(3, func(a, b int) { lbls[a], lbls[b] = lbls[b], lbls[a] })
				sameLabel := r.IntN(6) == 0 // two matchers on one label: its own class
				for j := 0; j < nm; j++ {
					l := lbls[j]
					if sameLabel {
						l = lbls[0]
					}
					var pool []string
					switch l {
					case "host":
						pool = hosts
					case "dc":
						pool = dcs
					default:
						pool = envs
					}
					op := []string{"=", "!=", "=~", "!~"}[r.IntN(4)]
					v := pool[r.IntN(len(pool))]
					if op == "=~" || op == "!~" {
						v = []string{pool[0] + "|" + pool[len(pool)-1], pool[0] + "|" + pool[1] + "|" + pool[len(pool)-1], "web-.*", ".+", "[ab]", v}[r.IntN(6)]
					}
					q.Matchers = append(q.Matchers, Matcher{L: l, Op: op, V: v})
				}
			}
			switch r.IntN(8) {
			case 0, 1:
				q.Form = "select"
			case 2, 3, 4:
				q.Form = "agg"
				q.Fn = []string{"sum", "min", "max", "avg", "count"}[r.IntN(5)]
				switch r.IntN(4) {
				case 0:
					q.HasBy = true
					q.By = [][]string{{"dc"}, {"host"}, {"dc", "env"}, {"host", "dc", "env"}}[r.IntN(4)]
				case 1:
					q.Without = [][]string{{"host"}, {"dc"}, {"host", "env"}}[r.IntN(3)]
				}
			case 5:
				q.Form = "binvv"
				q.Op = []string{"+", "-", "*"}[r.IntN(3)]
				q.RMetric = metrics[r.IntN(2)]
			case 6:
				q.Form = "binvs"
				q.Op = []string{"+", "-", "*", "/"}[r.IntN(4)]
				q.Scalar = float64(1 + r.IntN(9))
			default:
				q.Form = "ratio"
				q.By = [][]string{{"dc"}, {"host"}, {"dc", "env"}}[r.IntN(3)]
			}
			sb, _ := json.Marshal(q)
			var spec map[string]any
			_ = json.Unmarshal(sb, &spec)
			ops = append(ops, plan.Op{Kind: "mquery", Text: q.Text(), Start: int64(t0) - int64(step)*3, End: int64(t0) + int64(step)*int64(nsteps+3), Step: int64(step), Args: map[string]any{"spec": spec}})
		}
		return ops
	}
	inc := plan.Incarnation{Boot: "full", SchedSeed: r.Uint64()>>11 | 1}
	var evs []json.RawMessage
	flushRound := func(last bool) {
		if len(evs) == 0 {
			return
		}
		inc.Ops = append(inc.Ops, plan.Op{Kind: "mput", Events: evs})
		evs = nil
		switch x := r.IntN(8); {
		case x < 2:
			inc.Ops = append(inc.Ops, genQueries()...) // open data
		case x < 5:
			inc.Ops = append(inc.Ops, plan.Op{Kind: "advance", DurMs: 10_500})
			inc.Ops = append(inc.Ops, genQueries()...)
		case x < 6:
			inc.Ops = append(inc.Ops, plan.Op{Kind: "advance", DurMs: 61_000})
			inc.Ops = append(inc.Ops, genQueries()...)
		case x < 7 && !last:
			inc.Ops = append(inc.Ops, plan.Op{Kind: "shutdown"})
			p.Incs = append(p.Incs, inc)
			inc = plan.Incarnation{Boot: "full", SchedSeed: r.Uint64()>>11 | 1}
			inc.Ops = append(inc.Ops, genQueries()...)
		}
	}
	for i := 0; i < nsteps; i++ {
		if cuts[i] {
			flushRound(false)
		}
		for si, s := range sers {
			v := float64((si+1)*100 + i + r.IntN(3))
			evs = append(evs, DP{Metric: s.metric, Tags: s.tags, TS: t0 + uint32(i)*step, V: v}.Raw())
		}
	}
	flushRound(true)
	inc.Ops = append(inc.Ops, genQueries()...)
	p.Incs = append(p.Incs, inc)
	return p
}

func promqlOracle(prop string, res *RunResult) []Violation {
	var vs []Violation
	m := newMetricsModel()
	for ii, inc := range res.Plan.Incs {
		if ii >= len(res.Incs) {
			break
		}
		ir := res.Incs[ii]
		if ab := ir.Abnormal(); ab != "" && ab != "harness" && ab != "wall-timeout" {
			site := ir.PanicSite()
			if ab == "hang" {
				site = ir.HangKind()
			}
			vs = append(vs, Violation{Sig: prop + ":node-" + ab + ":" + site, Msg: trimTo(ir.Stderr, 1500)})
		}
		for oi := range inc.Ops {
			op := &inc.Ops[oi]
			e := ir.Get(fmt.Sprint(oi))
			if e == nil {
				break
			}
			where := fmt.Sprintf("inc %d op %d", ii, oi)
			switch op.Kind {
			case "mput":
				m.applyMput(op, e)
			case "mquery":
				sb, _ := json.Marshal(op.Args["spec"])
				var q QSpec
				if err := json.Unmarshal(sb, &q); err != nil || q.Form == "" {
					continue
				}
				if e.Err != "" {
					vs = append(vs, Violation{Sig: prop + ":" + q.Form + ":query-error", Msg: where + " " + op.Text + ": " + e.Err})
					continue
				}
				ans, err := decodeMQ(e)
				if err != nil {
					continue
				}
				vs = append(vs, checkPromQL(prop, q, m, ans, where)...)
			}
		}
	}
	return dedupV(vs)
}

func init() {
	register(&Check{
		ID:    "C09",
		Level: "exploration",
		Rule: "each case is one seeded history: 2-9 label sets under two metrics on a regular step grid (with gaps), ingested in rounds separated by the rotation timer (small block/segment size knobs), the tags-tree timer or a graceful restart; after every step a pool of 6-13 generated queries (selectors with = != =~ !~, sum/min/max/avg/count with by/without/none, vector+vector, vector+scalar, sum/count ratio) is evaluated on the real node and compared with a reference evaluator of that subset. distinct = distinct (operation shape, knobs, query texts); non-trivial = data was queried in at least two physical states (open / rotated / restarted)",
		Run: func(c *Ctx) {
			n := 80
			if !c.Quick() {
				n = 4000
			}
			c.Explore(n, func(r *rand.Rand, i int) *plan.Plan { return genPromQLHistory(r, c.Quick()) }, func(res *RunResult) (string, bool, any) {
				key, nt, sample := metricsShape(res)
				var qs []string
				for _, inc := range res.Plan.Incs {
					for _, op := range inc.Ops {
						if op.Kind == "mquery" && len(qs) < 8 {
							qs = append(qs, op.Text)
						}
					}
				}
				if sm, ok := sample.(map[string]any); ok {
					sm["queries"] = qs
				}
				return key + strings.Join(qs, ";"), nt, sample
			})
		},
		Oracle: func(res *RunResult) []Violation { return promqlOracle("C09", res) },
		Assumptions: []string{
			"one sample per step per series on a regular grid without gaps: every evaluation bucket holds exactly one sample per series, so bucket reduction is the identity and no staleness/lookback rule is involved",
			"every series carries every label (the treatment of absent labels by matchers is not exercised)",
			"values are small integers so that sums are exact; avg/ratio compared to 1e-9 relative",
			"labels missing from a series count as the empty string for matchers (PromQL semantics)",
		},
		Components: stdComponents,
	})
}
