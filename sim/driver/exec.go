package main

import (
	"regexp"
	"bufio"
	"bytes"
	"context"
	"encoding/json"
	"fmt"
	"os"
	"os/exec"
	"path/filepath"
	"strings"
	"sync/atomic"
	"syscall"
	"time"

	"simlens/plan"
)

// IncResult is what one incarnation (child process) left behind.
type IncResult struct {
	Exit     int
	TimedOut bool
	Stderr   string
	Entries  []*plan.Entry
	byIdx    map[string]*plan.Entry
	WallMs   int64
}

func (r *IncResult) Get(idx string) *plan.Entry {
	if r.byIdx == nil {
		r.byIdx = map[string]*plan.Entry{}
		for _, e := range r.Entries {
			if e.Phase == "" || e.Phase == "return" {
				r.byIdx[e.Idx] = e
			}
		}
	}
	return r.byIdx[idx]
}

// Invoke returns the invoke-phase entry of a par client op.
func (r *IncResult) Invoke(idx string) *plan.Entry {
	for _, e := range r.Entries {
		if e.Idx == idx && e.Phase == "invoke" {
			return e
		}
	}
	return nil
}

func (r *IncResult) End() map[string]json.RawMessage {
	e := r.Get("end")
	if e == nil {
		return nil
	}
	var m map[string]json.RawMessage
	_ = json.Unmarshal(e.Data, &m)
	return m
}

// RunResult is one executed plan.
type RunResult struct {
	Plan *plan.Plan
	Incs []*IncResult
	Dir  string
	Sub  []*RunResult // world-set plans: one result per world
}

var (
	nodeBin     string
	scratchRoot string
	runCounter  atomic.Int64
	childWall   = 150 * time.Second
	keepDirs    = os.Getenv("SIM_KEEP") != ""
)

func initScratch() {
	base := os.Getenv("TMPDIR")
	if base == "" {
		base = "/tmp"
	}
	scratchRoot = filepath.Join(base, fmt.Sprintf("simlens-%d", os.Getpid()))
	_ = os.MkdirAll(scratchRoot, 0o755)
}

func cleanupScratch() {
	if scratchRoot != "" && !keepDirs {
		_ = os.RemoveAll(scratchRoot)
	}
}

// Between is called between incarnations (damage faults are applied here).
type Between func(dir string, nextInc int) error

// RunPlan executes all incarnations of p in fresh processes on one scratch directory.
func RunPlan(p *plan.Plan, between Between) (*RunResult, error) {
	return RunPlanPre(p, between, nil)
}

// RunPlanPre: like RunPlan, with a hook that prepares the scratch directory before the first incarnation.
// The node's working directory is <scratch>/r<n>/w/w2 so that several levels of "../" stay inside the scratch.
func RunPlanPre(p *plan.Plan, between Between, pre func(dir string)) (*RunResult, error) {
	n := runCounter.Add(1)
	dir := filepath.Join(scratchRoot, fmt.Sprintf("r%d", n))
	if err := os.MkdirAll(dir, 0o755); err != nil {
		return nil, err
	}
	if pre != nil {
		pre(dir)
	}
	res := &RunResult{Plan: p, Dir: dir}
	planPath := filepath.Join(dir, "plan.json")
	if err := p.Save(planPath); err != nil {
		return nil, err
	}
	for i := range p.Incs {
		if i > 0 && between != nil {
			if err := between(dir, i); err != nil {
				return res, fmt.Errorf("between: %w", err)
			}
		}
		procs := 2
		if v, ok := p.Params["child_gomaxprocs"]; ok {
			procs = paramInt(v, 2)
		}
		ir, err := runChild(dir, planPath, i, procs)
		if err != nil {
			return res, err
		}
		res.Incs = append(res.Incs, ir)
		if ir.TimedOut {
			break
		}
		// a child that died abnormally (panic, fatal) still allows the next incarnation: that is a crash too
	}
	return res, nil
}

func (r *RunResult) Cleanup() {
	for _, s := range r.Sub {
		s.Cleanup()
	}
	if !keepDirs && r.Dir != "" {
		_ = os.RemoveAll(r.Dir)
	}
}

func runChild(dir, planPath string, inc int, goMaxProcs int) (*IncResult, error) {
	jpath := filepath.Join(dir, fmt.Sprintf("journal.%d", inc))
	_ = os.Remove(jpath)
	ctx, cancel := context.WithTimeout(context.Background(), childWall)
	defer cancel()
	cmd := exec.CommandContext(ctx, nodeBin, "-test.run", "^TestSim$", "-test.timeout", "0")
	cmd.Dir = dir
	cmd.Env = append(os.Environ(),
		"SIM_PLAN="+planPath, fmt.Sprintf("SIM_INC=%d", inc), "SIM_JOURNAL="+jpath,
		fmt.Sprintf("GOMAXPROCS=%d", goMaxProcs), "GOTRACEBACK=single", "TMPDIR="+dir,
	)
	if os.Getenv("VERIF_DET_DUMP") != "" && os.Getenv("VERIF_DET_NOTRACE") == "" {
		cmd.Env = append(cmd.Env, "SIM_TRACE=1")
	}
	var stderr bytes.Buffer
	cmd.Stdout = &stderr
	cmd.Stderr = &stderr
	cmd.SysProcAttr = &syscall.SysProcAttr{Setpgid: true}
	cmd.Cancel = func() error { return syscall.Kill(-cmd.Process.Pid, syscall.SIGKILL) }
	t0 := time.Now()
	err := cmd.Run()
	ir := &IncResult{WallMs: time.Since(t0).Milliseconds()}
	if ctx.Err() != nil {
		ir.TimedOut = true
	}
	if err != nil {
		if ee, ok := err.(*exec.ExitError); ok {
			ir.Exit = ee.ExitCode()
		} else if !ir.TimedOut {
			return nil, fmt.Errorf("child start: %w", err)
		}
	}
	s := stderr.String()
	if len(s) > 6000 {
		s = s[:2000] + "\n...\n" + s[len(s)-4000:]
	}
	ir.Stderr = s
	f, err := os.Open(jpath)
	if err == nil {
		defer f.Close()
		sc := bufio.NewScanner(f)
		sc.Buffer(make([]byte, 1<<20), 1<<30)
		for sc.Scan() {
			var e plan.Entry
			if err := json.Unmarshal(sc.Bytes(), &e); err == nil {
				ir.Entries = append(ir.Entries, &e)
			}
		}
	}
	return ir, nil
}

// abnormal describes a child that neither finished (0) nor crashed by plan (77).
func (ir *IncResult) Abnormal() string {
	switch {
	case ir.TimedOut:
		return "wall-timeout"
	case ir.Exit == 0 || ir.Exit == 77:
		return ""
	case ir.Exit == 78:
		return "hang"
	case ir.Exit == 79:
		return "deadlock"
	case ir.Exit == 70:
		return "harness"
	default:
		if strings.Contains(ir.Stderr, "panic:") || strings.Contains(ir.Stderr, "fatal error:") {
			return "panic"
		}
		if ir.Exit == -1 {
			// ended by a signal it did not raise itself (no panic or runtime fatal error on its stderr): the kernel's
			// OOM killer or an operator - an event of the environment, never a verdict about the node
			return "harness"
		}
		return fmt.Sprintf("exit-%d", ir.Exit)
	}
}

// HangKind classifies a hang entry: "spin:<first siglens function on the stack>" (a task never yields) or
// "blocked" (budget exhausted while waiting).
func (ir *IncResult) HangKind() string {
	e := ir.Get("hang")
	if e == nil {
		return "unknown"
	}
	if !strings.Contains(e.Err, "never reaches a yield point") {
		return "blocked"
	}
	for _, l := range strings.Split(e.Err, "\n") {
		l = strings.TrimSpace(l)
		if strings.HasPrefix(l, "github.com/siglens/siglens/pkg/") {
			f := strings.TrimPrefix(l, "github.com/siglens/siglens/pkg/")
			if k := strings.IndexByte(f, '('); k > 0 {
				// keep "pkg/path.Func" or "pkg/path.(*T).Method"
				if strings.HasPrefix(f[k:], "(*") {
					if k2 := strings.IndexByte(f[k+1:], '('); k2 > 0 {
						f = f[:k+1+k2]
					}
				} else {
					f = f[:k]
				}
			}
			return "spin:" + f
		}
	}
	return "spin"
}

// PanicSite extracts the panic message and the first siglens frame of a panic trace, as
// "<message> @ <package path>.<function> [<file>]" (no line numbers: signatures must survive edits).
func (ir *IncResult) PanicSite() string {
	lines := strings.Split(ir.Stderr, "\n")
	msg := ""
	for i, l := range lines {
		if strings.HasPrefix(l, "panic:") || strings.HasPrefix(l, "fatal error:") {
			msg = digitsRe.ReplaceAllString(l, "N")
			for k := i; k+1 < len(lines); k++ {
				fn := strings.TrimSpace(lines[k])
				if !strings.HasPrefix(fn, "github.com/siglens/siglens/pkg/") {
					continue
				}
				fn = strings.TrimPrefix(fn, "github.com/siglens/siglens/pkg/")
				// cut the argument list
				depth := 0
				for p := len(fn) - 1; p >= 0; p-- {
					if fn[p] == ')' {
						depth++
					} else if fn[p] == '(' {
						depth--
						if depth == 0 {
							fn = fn[:p]
							break
						}
					}
				}
				file := strings.TrimSpace(lines[k+1])
				if sp := strings.IndexByte(file, ' '); sp > 0 {
					file = file[:sp]
				}
				if c := strings.LastIndexByte(file, ':'); c > 0 {
					file = file[:c]
				}
				if sl := strings.LastIndexByte(file, '/'); sl >= 0 {
					file = file[sl+1:]
				}
				return trimTo(msg, 80) + " @ " + fn + " [" + file + "]"
			}
			break
		}
	}
	return trimTo(msg, 120)
}

var digitsRe = regexp.MustCompile(`[0-9]+`)

func trimTo(s string, n int) string {
	if len(s) > n {
		return s[:n]
	}
	return s
}
