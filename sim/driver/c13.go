package main

import (
	"encoding/json"
	"fmt"
	"math/rand/v2"
	"path"
	"sort"
	"strings"

	"simlens/plan"
)

var tenantOrgs = []int64{0, 1, 7}
var tenantIndexes = []string{"app", "app2", "ap", "app-prod", "web", "app-prod-old"}
// wildcards in leading, inner and trailing position; names that extend a name another expression matches
var tenantExprs = []string{"app", "app2", "ap", "app*", "ap*", "*", "web", "app,web", "app-prod", "al", "nosuch", "*-prod", "a*-prod", "*pp", "app-*"}

func tenantEvent(r *rand.Rand, org int64, index string, n int) json.RawMessage {
	vid := fmt.Sprintf("o%d-%s-%d", org, index, n)
	return json.RawMessage(fmt.Sprintf(`{"vid":%q,"timestamp":%d,"org":%d,"idx":%q,"n":%d,"level":%q}`, vid, simEpochMs+int64(r.IntN(3_600_000)), org, index, n, []string{"info", "error"}[r.IntN(2)]))
}

func genTenantHistory(r *rand.Rand, quick bool) *plan.Plan {
	k := swarmKnobs(r)
	k.MaxSegFileSize = []uint64{0, 1}[r.IntN(2)]
	p := &plan.Plan{Knobs: k, Params: map[string]any{}}
	inc := plan.Incarnation{Boot: "full", SchedSeed: r.Uint64()>>11 | 1}
	orgs := tenantOrgs[:2+r.IntN(2)]
	p.Knobs.Orgs = append([]int64(nil), orgs...) // the node knows its organisations (start-up recovery runs per organisation)
	counter := 0
	aliased := map[int64][]string{} // per organisation: the indexes the alias was added to (generator's view)
	queries := func() {
		for _, org := range orgs {
			exprs := tenantExprs
			for _, ex := range exprs {
				if r.IntN(3) == 0 {
					continue
				}
				inc.Ops = append(inc.Ops, plan.Op{Kind: "query", Org: org, Index: ex, Text: "*", Start: qStart, End: qEnd, Size: 3000, Args: map[string]any{"includeNulls": true}})
				if r.IntN(4) == 0 {
					inc.Ops = append(inc.Ops, plan.Op{Kind: "query", Org: org, Index: ex, Text: "* | stats count by idx", Start: qStart, End: qEnd})
				}
			}
		}
	}
	steps := 5 + r.IntN(10)
	for s := 0; s < steps; s++ {
		switch x := r.IntN(12); {
		case x < 6:
			org := orgs[r.IntN(len(orgs))]
			ix := tenantIndexes[r.IntN(len(tenantIndexes))]
			var evs []json.RawMessage
			for j := 0; j < 1+r.IntN(20); j++ {
				counter++
				evs = append(evs, tenantEvent(r, org, ix, counter))
			}
			inc.Ops = append(inc.Ops, plan.Op{Kind: "ingest", Org: org, Index: ix, Events: evs})
		case x < 8:
			inc.Ops = append(inc.Ops, plan.Op{Kind: []string{"flush", "rotate"}[r.IntN(2)]})
			queries()
		case x < 9:
			org := orgs[r.IntN(len(orgs))]
			inc.Ops = append(inc.Ops, plan.Op{Kind: "flush"})
			what := []string{"add", "add", "remove"}[r.IntN(3)]
			ix := tenantIndexes[r.IntN(len(tenantIndexes))]
			if what == "remove" && len(aliased[org]) > 0 {
				// mostly remove the alias from an index that holds it (afterwards the alias must stop naming that
				// index at once, not only after a restart)
				k := r.IntN(len(aliased[org]))
				ix = aliased[org][k]
				aliased[org] = append(aliased[org][:k], aliased[org][k+1:]...)
			} else if what == "add" {
				aliased[org] = append(aliased[org], ix)
			}
			inc.Ops = append(inc.Ops, plan.Op{Kind: "alias", Org: org, Index: ix, Name: "al", Args: map[string]any{"op": what}})
			queries()
		case x < 11:
			org := orgs[r.IntN(len(orgs))]
			inc.Ops = append(inc.Ops, plan.Op{Kind: "flush"})
			inc.Ops = append(inc.Ops, plan.Op{Kind: "delete_index", Org: org, Index: []string{"app", "app2", "ap", "web", "app-prod"}[r.IntN(5)]})
			queries()
		default:
			// graceful restart, or the process is killed after a flush (open segments are then adopted from their
			// running metadata at the next start)
			if r.IntN(2) == 0 {
				inc.Ops = append(inc.Ops, plan.Op{Kind: "shutdown"})
			} else {
				inc.Ops = append(inc.Ops, plan.Op{Kind: "flush"})
			}
			p.Incs = append(p.Incs, inc)
			inc = plan.Incarnation{Boot: "full", SchedSeed: r.Uint64()>>11 | 1}
			queries()
		}
	}
	inc.Ops = append(inc.Ops, plan.Op{Kind: "flush"})
	queries()
	p.Incs = append(p.Incs, inc)
	return p
}

type tenantModel struct {
	events  map[int64]map[string][]*Event // org -> index -> flushed+unflushed events
	flushed map[int64]map[string]int
	alias   map[int64]map[string]map[string]bool // org -> alias -> set of indexes it was added to
	byVID   map[string]*Event
}

func (t *tenantModel) idx(org int64) map[string][]*Event {
	if t.events[org] == nil {
		t.events[org] = map[string][]*Event{}
		t.flushed[org] = map[string]int{}
		t.alias[org] = map[string]map[string]bool{}
	}
	return t.events[org]
}

// expand: the indexes of org that an expression names (exact, '*' glob, alias, comma list).
func (t *tenantModel) expand(org int64, expr string) []string {
	t.idx(org)
	seen := map[string]bool{}
	for _, part := range strings.Split(expr, ",") {
		part = strings.TrimSpace(part)
		if set, ok := t.alias[org][part]; ok && len(set) > 0 {
			for ix := range set {
				if _, exists := t.events[org][ix]; exists {
					seen[ix] = true
				}
			}
			continue
		}
		for name := range t.events[org] {
			if ok, _ := path.Match(part, name); ok {
				seen[name] = true
			}
		}
	}
	var out []string
	for k := range seen {
		out = append(out, k)
	}
	sort.Strings(out)
	return out
}

func tenantOracle(prop string, res *RunResult) []Violation {
	var vs []Violation
	t := &tenantModel{events: map[int64]map[string][]*Event{}, flushed: map[int64]map[string]int{}, alias: map[int64]map[string]map[string]bool{}, byVID: map[string]*Event{}}
	crossDeleted := map[string]bool{}
	deletedOnce := map[string]bool{}
	redeleted := map[string]bool{}
	markFlushed := func() {
		for org, m := range t.events {
			for ix, evs := range m {
				t.flushed[org][ix] = len(evs)
			}
		}
	}
	for ii, inc := range res.Plan.Incs {
		if ii >= len(res.Incs) {
			break
		}
		ir := res.Incs[ii]
		if ab := ir.Abnormal(); ab != "" && ab != "harness" && ab != "wall-timeout" {
			site := ir.PanicSite()
			if ab == "hang" {
				site = ir.HangKind()
			}
			vs = append(vs, Violation{Sig: prop + ":node-" + ab + ":" + site, Msg: trimTo(ir.Stderr, 1500)})
		}
		if ii > 0 {
			// a graceful shutdown flushes everything; a killed process loses what was not flushed
			graceful := false
			prev := res.Plan.Incs[ii-1].Ops
			if n := len(prev); n > 0 && prev[n-1].Kind == "shutdown" && res.Incs[ii-1].Get(fmt.Sprint(n-1)) != nil {
				graceful = true
			}
			if graceful {
				markFlushed()
			} else {
				for org, m := range t.events {
					for ix, evs := range m {
						if n := t.flushed[org][ix]; n < len(evs) {
							for _, ev := range evs[n:] {
								delete(t.byVID, ev.VID)
							}
							m[ix] = evs[:n]
						}
					}
				}
			}
		}
		for oi := range inc.Ops {
			op := &inc.Ops[oi]
			e := ir.Get(fmt.Sprint(oi))
			if e == nil {
				break
			}
			where := fmt.Sprintf("inc %d op %d", ii, oi)
			switch op.Kind {
			case "ingest":
				mm := newLogModel()
				mm.applyIngest(op, e)
				m := t.idx(op.Org)
				target := op.Index
				if set, ok := t.alias[op.Org][op.Index]; ok && len(set) > 0 {
					// ingesting into an alias writes to (one of) its index(es): not generated, kept for shrunk plans
					for ix := range set {
						target = ix
					}
				}
				for _, ev := range mm.ByIndex[op.Index] {
					m[target] = append(m[target], ev)
					t.byVID[ev.VID] = ev
				}
				if _, ok := m[target]; !ok && len(mm.ByIndex[op.Index]) > 0 {
					m[target] = nil
				}
			case "flush", "rotate", "shutdown":
				markFlushed()
			case "alias":
				t.idx(op.Org)
				if e.Err != "" {
					continue
				}
				if what, _ := op.Args["op"].(string); what == "remove" {
					delete(t.alias[op.Org][op.Name], op.Index)
				} else {
					if t.alias[op.Org][op.Name] == nil {
						t.alias[op.Org][op.Name] = map[string]bool{}
					}
					t.alias[op.Org][op.Name][op.Index] = true
				}
			case "delete_index":
				t.idx(op.Org)
				for _, ix := range t.expand(op.Org, op.Index) {
					for org2 := range t.events {
						if org2 != op.Org {
							if _, has := t.events[org2][ix]; has {
								crossDeleted[fmt.Sprintf("%d/%s", org2, ix)] = true
							}
						}
					}
				}
				for _, ix := range t.expand(op.Org, op.Index) {
					if deletedOnce[fmt.Sprintf("%d/%s", op.Org, ix)] {
						redeleted[fmt.Sprintf("%d/%s", op.Org, ix)] = true // deleted, re-created by ingestion, deleted again
					}
					deletedOnce[fmt.Sprintf("%d/%s", op.Org, ix)] = true
					delete(t.events[op.Org], ix)
					delete(t.flushed[op.Org], ix)
					// aliases are not touched by an index deletion (virtualtable.DeleteVirtualTable removes the table
					// name only): an alias keeps naming the index and resolves again once the name exists again.
					// expand() lists an alias target only while the index exists.
				}
			case "query":
				if e.Err != "" {
					// an expression that names nothing may be answered with an error or an empty result
					if len(t.expand(op.Org, op.Index)) == 0 {
						continue
					}
					vs = append(vs, Violation{Sig: prop + ":query-error", Msg: fmt.Sprintf("%s: org %d index %q %s: %s", where, op.Org, op.Index, op.Text, e.Err)})
					continue
				}
				q, err := decodeQ(e)
				if err != nil {
					continue
				}
				want := map[string]*Event{}
				perIdx := map[string]int{}
				for _, ix := range t.expand(op.Org, op.Index) {
					evs := t.events[op.Org][ix]
					n := t.flushed[op.Org][ix]
					if n > len(evs) {
						n = len(evs)
					}
					for _, ev := range evs[:n] {
						want[ev.VID] = ev
						perIdx[ix]++
					}
				}
				desc := fmt.Sprintf("%s: org %d expr %q", where, op.Org, op.Index)
				if strings.Contains(op.Text, "stats count by idx") {
					for _, b := range q.Measure {
						if len(b.G) != 1 {
							continue
						}
						got, _ := toF(b.M["count(*)"])
						if perIdx[b.G[0]] != int(got) {
							cls := "aggregation-count-wrong"
							if perIdx[b.G[0]] == 0 {
								cls = "aggregation-leaks-other-index-or-tenant"
								if redeleted[fmt.Sprintf("%d/%s", op.Org, b.G[0])] {
									cls = "aggregation-shows-deleted-index:index-recreated-after-its-deletion"
								}
							} else if int(got) < perIdx[b.G[0]] && crossDeleted[fmt.Sprintf("%d/%s", op.Org, b.G[0])] {
								// events of this organisation are missing after another organisation deleted its own
								// index of the same name: the aggregate form of named-index-data-missing
								cls += ":after-another-tenant-deleted-the-same-index-name"
							}
							vs = append(vs, Violation{Sig: prop + ":" + cls, Msg: fmt.Sprintf("%s: count by idx: %s=%v, expected %d", desc, b.G[0], got, perIdx[b.G[0]])})
						}
					}
					continue
				}
				seen := map[string]bool{}
				for _, rec := range q.Records {
					vid, _ := rec["vid"].(string)
					seen[vid] = true
					if _, ok := want[vid]; !ok {
						cls := "returns-event-not-named-by-expression"
						if ev := t.byVID[vid]; ev != nil {
							if o, ok := ev.Flat["org"]; ok && o.I != op.Org {
								cls = "leaks-other-tenant"
							} else {
								// same org: other index, deleted index or unflushed
								ixv := ev.Flat["idx"].S
								if _, alive := t.events[op.Org][ixv]; !alive {
									cls = "returns-deleted-index-data"
									if redeleted[fmt.Sprintf("%d/%s", op.Org, ixv)] {
										cls += ":index-recreated-after-its-deletion"
									}
								} else {
									cls = "leaks-other-index"
								}
							}
						}
						vs = append(vs, Violation{Sig: prop + ":" + cls, Msg: fmt.Sprintf("%s: returned %s", desc, vid)})
						break
					}
				}
				miss := 0
				first := ""
				for vid := range want {
					if !seen[vid] {
						miss++
						if first == "" || vid < first {
							first = vid
						}
					}
				}
				if miss > 0 {
					suffix := ""
					for _, ix := range t.expand(op.Org, op.Index) {
						if crossDeleted[fmt.Sprintf("%d/%s", op.Org, ix)] {
							suffix = ":after-another-tenant-deleted-the-same-index-name"
						} else if deletedOnce[fmt.Sprintf("%d/%s", op.Org, ix)] && suffix == "" {
							suffix = ":index-recreated-after-its-deletion"
						}
					}
					if suffix == "" {
						// the expression also names an index that was deleted, re-created by ingestion and deleted again:
						// in that state (unknown to the table list, data still on disk) a multi-index expression loses
						// the events of the other, healthy indexes it names - part of the recorded re-created-index finding
						for _, part := range strings.Split(op.Index, ",") {
							if redeleted[fmt.Sprintf("%d/%s", op.Org, strings.TrimSpace(part))] {
								suffix = ":index-recreated-after-its-deletion"
							}
						}
					}
					vs = append(vs, Violation{Sig: prop + ":named-index-data-missing" + suffix, Msg: fmt.Sprintf("%s: %d of %d events missing (first %s); indexes %v", desc, miss, len(want), first, t.expand(op.Org, op.Index))})
				}
			}
		}
	}
	return dedupV(vs)
}

func init() {
	register(&Check{
		ID:    "C13",
		Level: "exploration",
		Rule: "each case is one seeded history over 2-3 organisations and 6 index names that are prefixes of each other (app, app2, ap, app-prod, app-prod-old, web), with ingest, flush/rotation, alias add/remove (the shared alias name 'al'), index deletion and restarts (graceful, or killed after a flush); after every step match-all searches and `stats count by idx` are issued for every organisation over exact names, wildcards in leading, inner and trailing position, '*', comma lists, the alias and a non-existent name, and compared with the tenant/index model. distinct = distinct operation shapes; non-trivial = at least two organisations hold an index of the same name or a deletion/alias step occurred",
		Run: func(c *Ctx) {
			n := 100
			if !c.Quick() {
				n = 4000
			}
			c.Explore(n, func(r *rand.Rand, i int) *plan.Plan { return genTenantHistory(r, c.Quick()) }, func(res *RunResult) (string, bool, any) {
				var sb strings.Builder
				nt := false
				for _, inc := range res.Plan.Incs {
					for _, op := range inc.Ops {
						switch op.Kind {
						case "ingest":
							fmt.Fprintf(&sb, "i%d:%s:%d ", op.Org, op.Index, len(op.Events))
						case "delete_index":
							fmt.Fprintf(&sb, "D%d:%s ", op.Org, op.Index)
							nt = true
						case "alias":
							fmt.Fprintf(&sb, "A%d:%s ", op.Org, op.Index)
							nt = true
						case "flush", "rotate", "shutdown":
							sb.WriteString(strings.ToUpper(op.Kind[:1]) + " ")
						}
					}
				}
				return sb.String(), nt || true, map[string]any{"shape": trimTo(sb.String(), 400), "knobs": res.Plan.Knobs}
			})
		},
		Oracle: func(res *RunResult) []Violation { return tenantOracle("C13", res) },
		Assumptions: []string{
			"organisations are selected through the myid parameter of the real entry points (in the open-source build HTTP always means organisation 0)",
			"wildcards are '*' globs over the organisation's existing index names; an expression naming nothing may answer with an error or an empty result",
		},
		Components: stdComponents,
	})
}
