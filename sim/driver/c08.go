package main

import (
	"encoding/json"
	"fmt"
	"math"
	"math/rand/v2"
	"sort"
	"strings"

	"simlens/plan"
)

// ---- adversarial float and timestamp streams -------------------------------------------------------------

func advFloat(r *rand.Rand, prev float64) float64 {
	for {
		v := advFloat1(r, prev)
		if !math.IsInf(v, 0) && !math.IsNaN(v) {
			return v
		}
	}
}

func advFloat1(r *rand.Rand, prev float64) float64 {
	switch r.IntN(12) {
	case 0:
		return math.Nextafter(prev, math.Inf(1)) // differs only in the lowest mantissa bit
	case 1:
		return math.Nextafter(prev, math.Inf(-1))
	case 2:
		return prev // repeat
	case 3:
		return 0
	case 4:
		return math.Copysign(0, -1)
	case 5:
		return []float64{math.MaxFloat64, -math.MaxFloat64, math.SmallestNonzeroFloat64, 2.2250738585072014e-308, 4.9406564584124654e-324 * 3}[r.IntN(5)]
	case 6:
		return float64(r.IntN(1000))
	case 7:
		return math.Float64frombits(math.Float64bits(prev) ^ (1 << uint(r.IntN(52)))) // one mantissa bit flipped
	case 8:
		return -prev
	case 9:
		return prev * 1.0000001
	case 10:
		return float64(int64(r.Uint64()>>11)) / 1e3
	default:
		return r.NormFloat64() * math.Pow(10, float64(r.IntN(40)-20))
	}
}

// nextTS: irregular steps around the delta-of-delta encoding boundaries and large gaps.
func nextTS(r *rand.Rand, prev uint32, lastDelta *int64) uint32 {
	var d int64
	switch r.IntN(8) {
	case 0:
		d = *lastDelta // dod = 0
	case 1:
		d = *lastDelta + []int64{-63, 64, -64, 65, -255, 256, -256, 257, -2047, 2048, -2048, 2049}[r.IntN(12)]
	case 2:
		d = 1
	case 3:
		d = int64(10 + r.IntN(50))
	case 4:
		d = int64(3600 + r.IntN(7200)) // hours
	case 5:
		d = int64(86400 * (1 + r.IntN(3))) // days
	default:
		d = int64(1 + r.IntN(120))
	}
	if d < 1 {
		d = 1
	}
	*lastDelta = d
	return prev + uint32(d)
}

var tagValPool = []string{"a", "prod", "us-east-1", "BaNaNa", "NaN", "x__y", "__", "v:1", "héllo", "日本", "with space", "UPPER", "0", "-1", "1e3", "true", "a.b.c", "/path/x", "q=1&r=2", "*", ".*", "a|b"}

type serGen struct {
	metric string
	tags   map[string]string
	ts     uint32
	delta  int64
	v      float64
}

func genSeriesSet(r *rand.Rand, n int) []*serGen {
	var out []*serGen
	seen := map[string]bool{}
	metrics := []string{"cpu_usage", "mem", "req__total", "a", "a__b", "latency_ms"}
	for len(out) < n {
		s := &serGen{metric: metrics[r.IntN(len(metrics))], tags: map[string]string{}, ts: uint32(simEpochMs/1000) + uint32(r.IntN(1000)), delta: 10, v: float64(r.IntN(100))}
		switch r.IntN(5) {
		case 0:
			// concatenation collisions: name__key__value boundaries
			s.tags = [][2]map[string]string{
				{{"a": "b__c"}, nil}, {{"a__b": "c"}, nil}, {{"k": "v", "k2": "v2"}, nil}, {{"k": "v__k2__v2"}, nil},
			}[r.IntN(4)][0]
		case 1:
			s.tags["host"] = fmt.Sprintf("h%d", r.IntN(4))
		default:
			nk := 1 + r.IntN(3)
			for i := 0; i < nk; i++ {
				s.tags[[]string{"host", "dc", "env", "app", "k"}[r.IntN(5)]] = tagValPool[r.IntN(len(tagValPool))]
			}
		}
		k := seriesKeyOf(s.metric, s.tags)
		if seen[k] {
			continue
		}
		seen[k] = true
		out = append(out, s)
	}
	return out
}

func genMetricsHistory(r *rand.Rand, quick bool) *plan.Plan {
	k := plan.Knobs{Sched: true, Procs: []int{1, 2, 4}[r.IntN(3)], MetricsKnobs: map[string]int{}}
	if r.IntN(2) == 0 {
		k.MetricsKnobs["max_block_bytes"] = 50 + r.IntN(600)
	}
	if r.IntN(3) == 0 {
		k.MetricsKnobs["max_segment_bytes"] = 200 + r.IntN(3000)
	}
	if r.IntN(3) == 0 {
		k.MetricsKnobs["wal_block_flush"] = 3 + r.IntN(20)
	}
	p := &plan.Plan{Knobs: k, Params: map[string]any{}}
	sers := genSeriesSet(r, 2+r.IntN(10))
	inc := plan.Incarnation{Boot: "full", SchedSeed: r.Uint64()>>11 | 1}
	metricsSeen := map[string]bool{}
	queries := func() []plan.Op {
		var ns []string
		for m := range metricsSeen {
			ns = append(ns, m)
		}
		sort.Strings(ns)
		var ops []plan.Op
		for _, m := range ns {
			ops = append(ops, plan.Op{Kind: "mquery", Text: m, Start: mStart, End: mEnd, Step: 1})
		}
		return ops
	}
	rounds := 3 + r.IntN(6)
	used2h := false
	maxPts := 40
	if !quick {
		maxPts = 120
	}
	for rd := 0; rd < rounds; rd++ {
		var evs []json.RawMessage
		n := 5 + r.IntN(maxPts)
		for i := 0; i < n; i++ {
			s := sers[r.IntN(len(sers))]
			s.ts = nextTS(r, s.ts, &s.delta)
			s.v = advFloat(r, s.v)
			evs = append(evs, DP{Metric: s.metric, Tags: s.tags, TS: s.ts, V: s.v}.Raw())
			metricsSeen[s.metric] = true
		}
		inc.Ops = append(inc.Ops, plan.Op{Kind: "mput", Events: evs})
		switch x := r.IntN(10); {
		case x < 3:
			inc.Ops = append(inc.Ops, queries()...) // open data
		case x < 5:
			inc.Ops = append(inc.Ops, plan.Op{Kind: "advance", DurMs: 10_500}) // rotation timer (block / segment by size knobs)
			inc.Ops = append(inc.Ops, queries()...)
		case x < 6:
			inc.Ops = append(inc.Ops, plan.Op{Kind: "advance", DurMs: 61_000}) // tags tree flush timer
			inc.Ops = append(inc.Ops, queries()...)
		case x < 7 && !quick && !used2h:
			used2h = true
			inc.Ops = append(inc.Ops, plan.Op{Kind: "advance", DurMs: 2*3600_000 + 5_000}) // 2 h block flush timer
			inc.Ops = append(inc.Ops, queries()...)
		case x < 8:
			inc.Ops = append(inc.Ops, plan.Op{Kind: "shutdown"})
			p.Incs = append(p.Incs, inc)
			inc = plan.Incarnation{Boot: "full", SchedSeed: r.Uint64()>>11 | 1}
			inc.Ops = append(inc.Ops, queries()...)
		case x < 9:
			// the process is killed a minute after the last datapoint was accepted: the 1 s WAL timers and the 60 s
			// tags-tree timer have run, so every accepted datapoint is in a WAL or block file and every series'
			// tags are on disk; start-up recovery must bring all of them back (also the blocks rotated earlier)
			inc.Ops = append(inc.Ops, plan.Op{Kind: "advance", DurMs: 61_000})
			p.Incs = append(p.Incs, inc)
			inc = plan.Incarnation{Boot: "full", SchedSeed: r.Uint64()>>11 | 1}
			inc.Ops = append(inc.Ops, queries()...)
		}
	}
	inc.Ops = append(inc.Ops, queries()...)
	p.Incs = append(p.Incs, inc)
	return p
}

// metricsOracle: every selector answer equals the model, series by series, point by point, bit by bit.
func metricsOracle(prop string, res *RunResult) []Violation {
	var vs []Violation
	m := newMetricsModel()
	for ii, inc := range res.Plan.Incs {
		if ii >= len(res.Incs) {
			break
		}
		ir := res.Incs[ii]
		if ab := ir.Abnormal(); ab != "" && ab != "harness" && ab != "wall-timeout" {
			site := ir.PanicSite()
			if ab == "hang" {
				site = ir.HangKind()
			}
			vs = append(vs, Violation{Sig: prop + ":node-" + ab + ":" + site, Msg: trimTo(ir.Stderr, 1500)})
		}
		if b := ir.Get("boot"); b != nil && b.Err != "" {
			vs = append(vs, Violation{Sig: prop + ":boot-failed", Msg: b.Err})
		}
		for oi := range inc.Ops {
			op := &inc.Ops[oi]
			e := ir.Get(fmt.Sprint(oi))
			if e == nil {
				break
			}
			where := fmt.Sprintf("inc %d op %d", ii, oi)
			switch op.Kind {
			case "mput":
				if rej := m.applyMput(op, e); rej > 0 {
					vs = append(vs, Violation{Sig: prop + ":valid-datapoint-rejected", Msg: fmt.Sprintf("%s: %d datapoints rejected: %s", where, rej, trimTo(string(e.Data), 300))})
				}
			case "mquery":
				if e.Err != "" {
					vs = append(vs, Violation{Sig: prop + ":query-error", Msg: where + " " + op.Text + ": " + e.Err})
					continue
				}
				q, err := decodeMQ(e)
				if err != nil {
					continue
				}
				vs = append(vs, checkSelector(prop, m, op.Text, q, where)...)
			}
		}
	}
	return dedupV(vs)
}

// checkSelector compares the answer of the bare selector `metric` with the model.
func checkSelector(prop string, m *MetricsModel, metric string, q *mqData, where string) []Violation {
	coll := collidingSeries(m)
	vs := checkSelector1(prop, m, metric, q, where, coll)
	return vs
}

func checkSelector1(prop string, m *MetricsModel, metric string, q *mqData, where string, coll map[string]bool) []Violation {
	var vs []Violation
	// a mismatch on a series that shares its joined identity with another one is the TSID-collision class
	tag := func(key string) string {
		if coll[key] {
			return ":tsid-collision"
		}
		// a returned (unknown) series whose joined identity equals that of colliding model series
		ji := joinedIdentity(key)
		for k := range coll {
			if joinedIdentity(k) == ji {
				return ":tsid-collision"
			}
		}
		return ""
	}
	if len(q.Errors) > 0 {
		vs = append(vs, Violation{Sig: prop + ":query-reports-errors", Msg: where + " " + metric + ": " + strings.Join(q.Errors, "; ")})
	}
	got := map[string][]mqPoint{}
	for sid, pts := range q.Series {
		name, labels := parseSeriesID(sid)
		key := seriesKeyOf(name, labels)
		if _, dup := got[key]; dup {
			vs = append(vs, Violation{Sig: prop + ":series-returned-twice", Msg: where + ": " + sid})
		}
		got[key] = pts
		if _, ok := m.Series[key]; !ok {
			vs = append(vs, Violation{Sig: prop + ":series-identity-wrong" + tag(key), Msg: fmt.Sprintf("%s: selector %s returned series %q which was never written (merged series or altered tags?); written: %v", where, metric, sid, seriesOfMetric(m, metric))})
		}
	}
	for key, exp := range m.Series {
		if !strings.HasPrefix(key, metric+"{") {
			continue
		}
		pts, ok := got[key]
		if !ok {
			vs = append(vs, Violation{Sig: prop + ":series-missing" + tag(key), Msg: fmt.Sprintf("%s: selector %s did not return series %s (%d datapoints written); returned %v", where, metric, key, len(exp), keysOf(got))})
			continue
		}
		// model: last write wins is not specified; timestamps are unique per series by construction
		sorted := append([]DP(nil), exp...)
		sort.Slice(sorted, func(i, j int) bool { return sorted[i].TS < sorted[j].TS })
		if len(pts) != len(sorted) {
			vs = append(vs, Violation{Sig: prop + ":datapoint-count-differs" + tag(key), Msg: fmt.Sprintf("%s: series %s wrote %d datapoints, read %d", where, key, len(sorted), len(pts))})
		}
		for i := 0; i < len(pts) && i < len(sorted); i++ {
			if pts[i].T != sorted[i].TS {
				vs = append(vs, Violation{Sig: prop + ":timestamp-differs" + tag(key), Msg: fmt.Sprintf("%s: series %s point %d wrote t=%d read t=%d", where, key, i, sorted[i].TS, pts[i].T)})
				break
			}
			if bitsOf(pts[i]) != math.Float64bits(sorted[i].V) {
				cls := "value-not-bit-identical"
				if sorted[i].V == 0 && math.Signbit(sorted[i].V) && bitsOf(pts[i]) == 0 {
					cls = "negative-zero-returned-as-positive-zero"
				}
				if cls == "value-not-bit-identical" {
					cls += tag(key)
				}
				vs = append(vs, Violation{Sig: prop + ":" + cls, Msg: fmt.Sprintf("%s: series %s t=%d wrote %v (%016x) read %s (%s)", where, key, pts[i].T, sorted[i].V, math.Float64bits(sorted[i].V), pts[i].V, pts[i].Bits)})
				break
			}
		}
	}
	return vs
}

// joinedIdentity mirrors, for the classification of one known finding only, the string SigLens hashes into
// a series id: name "__" then, for tag keys in descending order, key "__" value (no separator after values).
func joinedIdentity(key string) string {
	name, labels := parseSeriesID(key)
	ks := make([]string, 0, len(labels))
	for k := range labels {
		ks = append(ks, k)
	}
	sort.Sort(sort.Reverse(sort.StringSlice(ks)))
	var sb strings.Builder
	sb.WriteString(name)
	sb.WriteString("__")
	for _, k := range ks {
		sb.WriteString(k)
		sb.WriteString("__")
		sb.WriteString(labels[k])
	}
	return sb.String()
}

// collidingSeries returns the model series that share their joined identity with another series.
func collidingSeries(m *MetricsModel) map[string]bool {
	by := map[string][]string{}
	for k := range m.Series {
		j := joinedIdentity(k)
		by[j] = append(by[j], k)
	}
	out := map[string]bool{}
	for _, ks := range by {
		if len(ks) > 1 {
			for _, k := range ks {
				out[k] = true
			}
		}
	}
	return out
}

func seriesOfMetric(m *MetricsModel, metric string) []string {
	var out []string
	for k := range m.Series {
		if strings.HasPrefix(k, metric+"{") {
			out = append(out, k)
		}
	}
	sort.Strings(out)
	return out
}

func keysOf(m map[string][]mqPoint) []string {
	var out []string
	for k := range m {
		out = append(out, k)
	}
	sort.Strings(out)
	return out
}

func metricsShape(res *RunResult) (string, bool, any) {
	var sb strings.Builder
	rot := 0
	nd := 0
	for _, inc := range res.Plan.Incs {
		for _, op := range inc.Ops {
			switch op.Kind {
			case "mput":
				fmt.Fprintf(&sb, "p%d", len(op.Events))
				nd += len(op.Events)
			case "advance":
				fmt.Fprintf(&sb, "A%d", op.DurMs/1000)
				if op.DurMs >= 10_000 {
					rot++
				}
			case "shutdown":
				sb.WriteString("S")
				rot++
			case "mquery":
				sb.WriteString("q")
			}
		}
		sb.WriteString("|")
	}
	fmt.Fprintf(&sb, "%v", res.Plan.Knobs.MetricsKnobs)
	first := ""
	for _, inc := range res.Plan.Incs {
		for _, op := range inc.Ops {
			if len(op.Events) > 0 && first == "" {
				first = string(op.Events[0])
			}
		}
	}
	return sb.String(), rot > 0, map[string]any{"shape": sb.String(), "datapoints": nd, "knobs": res.Plan.Knobs, "first_datapoint": first}
}

func init() {
	register(&Check{
		ID:    "C08",
		Level: "exploration",
		Rule: "each case is one seeded metrics history: 2-11 series (tag sets chosen to collide under naive concatenation, values containing 'NaN', unicode, separators) receive adversarial float streams (neighbouring mantissas, +-0, subnormals, extremes, repeats, single-bit flips) at irregular timestamps around the delta-of-delta boundaries and with hour/day gaps; between rounds the fake clock passes the WAL (1 s), rotation (10 s, with small block/segment size knobs), tags-tree (60 s) or block-flush (2 h) timers, or the node restarts (gracefully, or killed a minute after the last accepted datapoint); after each step a 1-second-step selector per metric is compared with the series model bit by bit. distinct = distinct (operation shape, knobs); non-trivial = at least one rotation/flush timer or restart happened",
		Run: func(c *Ctx) {
			n := 100
			if !c.Quick() {
				n = 4000
			}
			c.Explore(n, func(r *rand.Rand, i int) *plan.Plan { return genMetricsHistory(r, c.Quick()) }, metricsShape)
		},
		Oracle: func(res *RunResult) []Violation { return metricsOracle("C08", res) },
		Assumptions: []string{
			"timestamps are unique per series (which of two same-second samples is returned is unspecified)",
			"values are observed through the public range-query path with a 1-second step, so each bucket holds one sample",
			"NaN and +-Inf are not generated (not expressible in the JSON ingest formats)",
		},
		Components: stdComponents,
	})
}
