package main

import (
	"encoding/json"
	"fmt"
	"math/rand/v2"
	"sort"
	"strconv"
	"strings"

	"simlens/plan"
)

// A world-set plan holds, in Params["worlds"], several complete plans built from the same events and the
// same query pool but with different physical histories and knobs. runWorlds executes each in its own
// scratch directory.
func worldsOf(p *plan.Plan) []*plan.Plan {
	raw, ok := p.Params["worlds"]
	if !ok {
		return nil
	}
	b, _ := json.Marshal(raw)
	var ws []*plan.Plan
	_ = json.Unmarshal(b, &ws)
	return ws
}

func runWorlds(p *plan.Plan) (*RunResult, error) {
	res := &RunResult{Plan: p}
	for _, w := range worldsOf(p) {
		r, err := RunPlan(w, genericBetween)
		if err != nil {
			res.Cleanup()
			return nil, err
		}
		res.Sub = append(res.Sub, r)
	}
	return res, nil
}

// "layout" family: fields that every accelerator touches: low-cardinality strings (dictionary / bloom),
// numbers (range index), free text, a higher-cardinality key.
func (g *EvGen) nextLayout(ts int64) *Event {
	g.n++
	r := g.r
	vid := fmt.Sprintf("%s%d", g.prefix, g.n)
	w := &jw{flat: map[string]Val{}}
	parts := []string{`"vid":` + w.scalar("vid", 's', vid), fmt.Sprintf(`"timestamp":%d`, ts)}
	add := func(k, v string) { parts = append(parts, jsonStr(k)+":"+v) }
	add("level", w.scalar("level", 's', []string{"info", "warn", "error", "debug"}[r.IntN(4)]))
	add("code", w.scalar("code", 'n', strconv.Itoa([]int{200, 200, 200, 404, 500, 503, 301}[r.IntN(7)])))
	add("lat", w.scalar("lat", 'n', strconv.FormatFloat(float64(r.IntN(4000))/4, 'f', -1, 64)))
	add("host", w.scalar("host", 's', fmt.Sprintf("web-%d", r.IntN(g.cardPool+1))))
	words := []string{"timeout", "connected", "Retry", "failed", "user", "login", "cache miss", "GET /api/v1/items", "disk full"}
	add("msg", w.scalar("msg", 's', words[r.IntN(len(words))]+" "+words[r.IntN(len(words))]))
	if r.IntN(3) == 0 {
		add("opt", w.scalar("opt", 's', []string{"a", "b"}[r.IntN(2)]))
	}
	// sparse numeric and sparse text columns (absent from most records): the value of the previous record
	// must never stand in for a missing one, whichever path answers the query
	if r.IntN(5) < 2 {
		add("rc", w.scalar("rc", 'n', strconv.Itoa(r.IntN(5))))
	}
	if r.IntN(10) < 3 {
		notes := []string{"escalated", "paged oncall", "escalated twice", "muted"}
		add("note", w.scalar("note", 's', notes[r.IntN(len(notes))]))
	}
	raw := "{" + strings.Join(parts, ",") + "}"
	return &Event{VID: vid, TS: ts, Flat: w.flat, Raw: json.RawMessage(raw)}
}

var layoutQueries = []string{
	`*`,
	`level=error`,
	`level!=info`,
	`code=404`,
	`code>=500`,
	`code<404`,
	`lat>500.5`,
	`lat<=10`,
	`level=error AND code>=500`,
	`level=warn OR code=404`,
	`NOT level=info`,
	`level=error AND NOT code=500`,
	`host=web-1`,
	`host=web-*`,
	`timeout`,
	`"cache miss"`,
	`retry`,
	`opt=a`,
	`msg="disk full*"`,
	`rc=3`,
	`level=error AND rc>2`,
	`rc>=1 AND code=200`,
	`level=warn AND rc<2`,
	`escalated`,
	`code=200 AND escalated`,
	`level=info AND note="paged oncall"`,
	`code=200 AND opt=a`,
	`rc>1 | stats count by level`,
	`* | stats count by level`,
	`* | stats count, sum(code), max(lat), min(lat) by host`,
	`level=error | stats count, avg(lat) by code`,
	`* | stats count`,
	`code>=500 | stats count, sum(lat)`,
	`* | stats dc(host), max(code)`,
	`* | timechart span=10m count by level`,
	`* | sort -lat | head 7`,
	`level=warn | sort +code, -lat | head 5`,
	`* | where code>300 | stats count by level`,
	`* | eval big=if(lat>500, "y", "n") | stats count by big`,
	`* | dedup level, code | stats count`,
	`* | fields level, code | head 100000 | stats count by code`,
}

// genWorldSet: one dataset, one query pool, K worlds.
func genWorldSet(r *rand.Rand, quick bool) *plan.Plan {
	nEv := 60 + r.IntN(240)
	if !quick {
		nEv = 100 + r.IntN(1400)
	}
	card := []int{2, 5, 20, 60}[r.IntN(4)]
	g := NewEvGen(r, "layout", "L", card)
	var evs []json.RawMessage
	for i := 0; i < nEv; i++ {
		var ts int64
		switch r.IntN(4) {
		case 0:
			ts = simEpochMs + int64(r.IntN(20))
		default:
			ts = simEpochMs + int64(r.IntN(7_200_000))
		}
		evs = append(evs, g.Next(ts).Raw)
	}
	// query pool: a random subset plus a time sub-range variant
	nq := 8 + r.IntN(10)
	perm := r.Perm(len(layoutQueries))
	var qs []plan.Op
	for i := 0; i < nq && i < len(perm); i++ {
		op := plan.Op{Kind: "query", Index: "lay", Text: layoutQueries[perm[i]], Start: qStart, End: qEnd, Size: nEv + 50, Args: map[string]any{"includeNulls": true}}
		if r.IntN(4) == 0 {
			op.Start = simEpochMs + int64(r.IntN(3_600_000))
			op.End = op.Start + int64(r.IntN(3_600_000))
		}
		qs = append(qs, op)
	}
	K := 3 + r.IntN(2)
	var worlds []*plan.Plan
	for w := 0; w < K; w++ {
		k := plan.Knobs{Sched: true}
		k.Procs = []int{1, 2, 4, 8, 16}[r.IntN(5)]
		k.CardLimit = []int{0, 3, 12}[r.IntN(3)]
		k.MaxSegFileSize = []uint64{0, 1, 20_000}[r.IntN(3)]
		pqs := r.IntN(2) == 0
		aggs := r.IntN(2) == 0
		k.PQS, k.Aggs = &boolF, &boolF
		if pqs {
			k.PQS = &boolT
		}
		if aggs {
			k.Aggs = &boolT
		}
		if r.IntN(6) == 0 {
			k.LowMem = true
		}
		if w > 0 && r.IntN(3) == 0 {
			// sort indexes on some columns in some worlds only: `sort` answers from them where they exist
			k.SortCols = map[string][]string{"lay": [][]string{{"code"}, {"lat"}, {"level", "code"}, {"host"}}[r.IntN(4)]}
		}
		wp := &plan.Plan{Property: "C03", Knobs: k, Params: map[string]any{}}
		inc := plan.Incarnation{Boot: "full", SchedSeed: r.Uint64()>>11 | 1}
		prime := (pqs || aggs) && r.IntN(3) > 0
		if w == 0 {
			// the reference world: one batch, one flush, no accelerators primed
			prime = false
		}
		if prime {
			// usage-driven accelerators (persistent queries, agile tree) are chosen from queries seen before
			// the data arrives: issue the pool a few times on the empty node
			for rep := 0; rep < 3; rep++ {
				inc.Ops = append(inc.Ops, qs...)
			}
			inc.Ops = append(inc.Ops, plan.Op{Kind: "advance", DurMs: 12_000})
		}
		// memory-pressure world (one in five, never the reference): a small memory budget, every batch flushed into
		// the open segment, a minute on the clock after the second or third batch (the memory limiter's rebalance
		// evicts the open segment's micro-indexes), more blocks afterwards, queries while the segment is still open
		pressure := w > 0 && len(evs) >= 12 && r.IntN(5) == 0
		if pressure {
			k.MemBytes = []uint64{0, 100_000, 400_000}[r.IntN(3)]
			k.LowMem = false
			k.MaxSegFileSize = 0
			wp.Knobs = k
			nb := 5 + r.IntN(4)
			evictAfter := 2 + r.IntN(2)
			for b := 0; b < nb; b++ {
				lo, hi := len(evs)*b/nb, len(evs)*(b+1)/nb
				inc.Ops = append(inc.Ops, plan.Op{Kind: "ingest", Index: "lay", Events: evs[lo:hi]}, plan.Op{Kind: "flush"})
				if b+1 == evictAfter {
					// the limiter rebalances every minute and whenever a search asks for more memory than it holds
					inc.Ops = append(inc.Ops, plan.Op{Kind: "advance", DurMs: 61_000}, qs[r.IntN(len(qs))])
					// and the simulator plays a machine whose limiter grants the open segments only part of what
					// their metadata holds now (the budget a fuller machine would compute)
					inc.Ops = append(inc.Ops, plan.Op{Kind: "mem_pressure", Args: map[string]any{
						"unrotated_permille": float64([]int{0, 300, 600, 900, 999}[r.IntN(5)])}})
				}
			}
			if r.IntN(3) == 0 {
				inc.Ops = append(inc.Ops, plan.Op{Kind: "advance", DurMs: 61_000})
			}
			inc.Ops = append(inc.Ops, qs...)
			wp.Incs = append(wp.Incs, inc)
			worlds = append(worlds, wp)
			continue
		}
		// split the events into batches with flush / rotate / timer / restart points
		pos := 0
		for pos < len(evs) {
			n := 1 + r.IntN(len(evs)/2+1)
			if w == 0 {
				n = len(evs)
			}
			if pos+n > len(evs) {
				n = len(evs) - pos
			}
			inc.Ops = append(inc.Ops, plan.Op{Kind: "ingest", Index: "lay", Events: evs[pos : pos+n]})
			pos += n
			switch x := r.IntN(8); {
			case x < 3:
				inc.Ops = append(inc.Ops, plan.Op{Kind: "flush"})
			case x < 5:
				inc.Ops = append(inc.Ops, plan.Op{Kind: "rotate"})
			case x < 6:
				inc.Ops = append(inc.Ops, plan.Op{Kind: "advance", DurMs: 11_000})
			case x < 7 && pos < len(evs):
				inc.Ops = append(inc.Ops, plan.Op{Kind: "shutdown"})
				wp.Incs = append(wp.Incs, inc)
				inc = plan.Incarnation{Boot: "full", SchedSeed: r.Uint64()>>11 | 1}
			}
		}
		inc.Ops = append(inc.Ops, plan.Op{Kind: "flush"})
		if r.IntN(2) == 0 {
			inc.Ops = append(inc.Ops, plan.Op{Kind: "rotate"})
		}
		if w > 0 && r.IntN(6) == 0 {
			// rotated micro-indexes evicted from memory: "unavailable" must mean "search the block", never "skip it"
			inc.Ops = append(inc.Ops, plan.Op{Kind: "mem_pressure", Args: map[string]any{"rotated_bytes": float64(r.IntN(2) * 2000)}})
		}
		inc.Ops = append(inc.Ops, qs...)
		wp.Incs = append(wp.Incs, inc)
		worlds = append(worlds, wp)
	}
	return &plan.Plan{Property: "C03", Knobs: plan.Knobs{Sched: true}, Params: map[string]any{"worlds": worlds, "n_events": nEv}}
}

// canonical form of one answer
func canonAnswer(q *qData) (kind string, ids []string, groups map[string]map[string]float64, bad string) {
	if len(q.Measure) > 0 || len(q.MeasureFuncs) > 0 {
		groups = map[string]map[string]float64{}
		for _, b := range q.Measure {
			key := strings.Join(b.G, "\x00")
			m := map[string]float64{}
			for k, v := range b.M {
				if f, ok := toF(v); ok {
					m[k] = f
				} else {
					m[k+"="+fmt.Sprint(v)] = 0
				}
			}
			if _, dup := groups[key]; dup {
				bad = "group " + key + " twice"
			}
			groups[key] = m
		}
		return "agg", nil, groups, bad
	}
	for _, rec := range q.Records {
		vid, _ := rec["vid"].(string)
		ids = append(ids, vid)
	}
	return "records", ids, nil, ""
}

func layoutOracle(prop string, res *RunResult) []Violation {
	var vs []Violation
	worlds := worldsOf(res.Plan)
	if len(res.Sub) != len(worlds) || len(worlds) < 2 {
		return nil
	}
	type ans struct {
		kind   string
		ids    []string
		sorted []string
		groups map[string]map[string]float64
		err    string
		text   string
		desc   string
	}
	// answers[q][w]
	var answers [][]*ans
	for w, sub := range res.Sub {
		last := len(sub.Plan.Incs) - 1
		for ii, ir := range sub.Incs {
			if ab := ir.Abnormal(); ab != "" && ab != "harness" && ab != "wall-timeout" {
				site := ir.PanicSite()
				if ab == "hang" {
					site = ir.HangKind()
				}
				vs = append(vs, Violation{Sig: prop + ":node-" + ab + ":" + site, Msg: fmt.Sprintf("world %d inc %d (%s): %s", w, ii, describeWorld(worlds[w]), trimTo(ir.Stderr, 1200))})
			}
		}
		if last >= len(sub.Incs) {
			continue
		}
		ir := sub.Incs[last]
		qi := 0
		// the final query block: the ops after the last flush/rotate of the last incarnation
		ops := sub.Plan.Incs[last].Ops
		start := len(ops)
		for start > 0 && ops[start-1].Kind == "query" {
			start--
		}
		for oi := start; oi < len(ops); oi++ {
			e := ir.Get(fmt.Sprint(oi))
			a := &ans{text: ops[oi].Text, desc: fmt.Sprintf("world %d (%s)", w, describeWorld(worlds[w]))}
			if e == nil {
				a.err = "no answer"
			} else if e.Err != "" {
				a.err = e.Err
			} else if q, err := decodeQ(e); err == nil {
				if len(q.Errors) > 0 {
					a.err = "errors: " + strings.Join(q.Errors, "; ")
				}
				var bad string
				a.kind, a.ids, a.groups, bad = canonAnswer(q)
				if bad != "" {
					a.err = bad
				}
				a.sorted = append([]string(nil), a.ids...)
				sort.Strings(a.sorted)
			}
			for len(answers) <= qi {
				answers = append(answers, make([]*ans, len(res.Sub)))
			}
			answers[qi][w] = a
			qi++
		}
	}
	for _, row := range answers {
		ref := row[0]
		if ref == nil {
			continue
		}
		cls := queryClass(ref.text)
		for w := 1; w < len(row); w++ {
			a := row[w]
			if a == nil {
				continue
			}
			fl := accelFlags(worlds[0], worlds[w])
			if (a.err != "") != (ref.err != "") {
				vs = append(vs, Violation{Sig: prop + ":" + cls + ":fails-in-one-layout" + fl, Msg: fmt.Sprintf("query %q: %s -> %q ; %s -> %q", ref.text, ref.desc, ref.err, a.desc, a.err)})
				continue
			}
			if a.err != "" {
				continue
			}
			if a.kind != ref.kind {
				vs = append(vs, Violation{Sig: prop + ":" + cls + ":answer-shape-differs" + fl, Msg: fmt.Sprintf("query %q: %s gives %s, %s gives %s", ref.text, ref.desc, ref.kind, a.desc, a.kind)})
				continue
			}
			if a.kind == "records" {
				ordered := strings.Contains(ref.text, "| sort") || strings.Contains(ref.text, "| head")
				if strings.Join(a.sorted, ",") != strings.Join(ref.sorted, ",") && !(ordered && len(a.sorted) == len(ref.sorted)) {
					vs = append(vs, Violation{Sig: prop + ":" + cls + ":matching-events-differ" + fl, Msg: fmt.Sprintf("query %q: %s matches %d events, %s matches %d; only-in-first %v only-in-second %v", ref.text, ref.desc, len(ref.sorted), a.desc, len(a.sorted), firstN(diffStr(ref.sorted, a.sorted), 5), firstN(diffStr(a.sorted, ref.sorted), 5))})
				} else if ordered && len(a.sorted) != len(ref.sorted) {
					vs = append(vs, Violation{Sig: prop + ":" + cls + ":result-count-differs" + fl, Msg: fmt.Sprintf("query %q: %s %d results, %s %d", ref.text, ref.desc, len(ref.sorted), a.desc, len(a.sorted))})
				}
				continue
			}
			// aggregations
			for gk, rm := range ref.groups {
				am, ok := a.groups[gk]
				if !ok {
					vs = append(vs, Violation{Sig: prop + ":" + cls + ":group-only-in-one-layout" + fl, Msg: fmt.Sprintf("query %q: group %q in %s but not in %s", ref.text, strings.Split(gk, "\x00"), ref.desc, a.desc)})
					break
				}
				for mk, rv := range rm {
					av, ok := am[mk]
					if !ok || !closeEnough(av, rv) {
						if strings.HasPrefix(mk, "cardinality(") && ok && av > 0 && rv > 0 && (av/rv < 1.1 && rv/av < 1.1) {
							continue // sketches merged in a different order
						}
						vs = append(vs, Violation{Sig: prop + ":" + cls + ":measure-differs" + fl, Msg: fmt.Sprintf("query %q: group %q %s = %v in %s but %v in %s", ref.text, strings.Split(gk, "\x00"), mk, rv, ref.desc, av, a.desc)})
						break
					}
				}
			}
			for gk := range a.groups {
				if _, ok := ref.groups[gk]; !ok {
					vs = append(vs, Violation{Sig: prop + ":" + cls + ":group-only-in-one-layout" + fl, Msg: fmt.Sprintf("query %q: group %q in %s but not in %s", ref.text, strings.Split(gk, "\x00"), a.desc, ref.desc)})
					break
				}
			}
		}
	}
	return dedupV(vs)
}

// accelFlags names the usage-driven accelerators that were enabled and primed in exactly one of two worlds.
func accelFlags(a, b *plan.Plan) string {
	primed := func(w *plan.Plan) (pqs, aggs bool) {
		if len(w.Incs) == 0 || len(w.Incs[0].Ops) == 0 || w.Incs[0].Ops[0].Kind != "query" {
			return false, false
		}
		return w.Knobs.PQS != nil && *w.Knobs.PQS, w.Knobs.Aggs != nil && *w.Knobs.Aggs
	}
	pa, aa := primed(a)
	pb, ab := primed(b)
	out := ""
	if aa != ab {
		out += ":agile-tree-primed-in-one"
	}
	if pa != pb {
		out += ":pqs-primed-in-one"
	}
	return out
}

func queryClass(text string) string {
	switch {
	case strings.HasPrefix(text, "\""):
		return "phrase"
	case strings.Contains(text, "timechart"):
		return "timechart"
	case strings.Contains(text, "| stats"):
		if strings.HasPrefix(text, "* | stats") {
			return "stats"
		}
		return "filtered-stats"
	case strings.Contains(text, "| sort"):
		return "sort"
	case text == "*":
		return "match-all"
	}
	return "filter"
}

func describeWorld(w *plan.Plan) string {
	var sb strings.Builder
	k := w.Knobs
	fmt.Fprintf(&sb, "procs=%d card=%d maxseg=%d pqs=%v aggs=%v ", k.Procs, k.CardLimit, k.MaxSegFileSize, k.PQS != nil && *k.PQS, k.Aggs != nil && *k.Aggs)
	if k.MemBytes > 0 {
		fmt.Fprintf(&sb, "mem=%d ", k.MemBytes)
	}
	if len(k.SortCols) > 0 {
		fmt.Fprintf(&sb, "sortidx=%v ", k.SortCols["lay"])
	}
	for _, inc := range w.Incs {
		nq := 0
		for _, op := range inc.Ops {
			switch op.Kind {
			case "ingest":
				fmt.Fprintf(&sb, "i%d", len(op.Events))
			case "flush":
				sb.WriteString("F")
			case "rotate":
				sb.WriteString("R")
			case "advance":
				sb.WriteString("T")
			case "shutdown":
				sb.WriteString("S")
			case "mem_pressure":
				sb.WriteString("M")
			case "query":
				nq++
			}
		}
		fmt.Fprintf(&sb, "q%d|", nq)
	}
	return sb.String()
}

func diffStr(a, b []string) []string {
	in := map[string]bool{}
	for _, x := range b {
		in[x] = true
	}
	var out []string
	for _, x := range a {
		if !in[x] {
			out = append(out, x)
		}
	}
	return out
}

func firstN(a []string, n int) []string {
	if len(a) > n {
		return a[:n]
	}
	return a
}

func init() {
	register(&Check{
		ID:    "C03",
		Level: "exploration",
		Rule: "each case is a world set: one generated dataset (60-1500 events of the 'layout' family) and one pool of 8-17 queries (match-all, = != < <= > >=, AND/OR/NOT, wildcard, free text, phrase, time sub-ranges, stats/timechart/sort/head/where/eval/dedup pipelines) answered in 3-4 worlds that differ only physically: batching, flush/rotation/idle-timer/restart points, one-big-block reference world, dictionary cardinality limit, segment size, GOMAXPROCS seen by the query engine, PQS and agile tree enabled and primed (the pool issued on the empty node before ingestion) or disabled, low-memory mode. Canonical answers must agree across worlds. distinct = distinct world-set descriptions; non-trivial = at least two worlds differ in rotation state or accelerator settings",
		Exec:  runWorlds,
		Run: func(c *Ctx) {
			n := 40
			if !c.Quick() {
				n = 1500
			}
			c.Explore(n, func(r *rand.Rand, i int) *plan.Plan { return genWorldSet(r, c.Quick()) }, func(res *RunResult) (string, bool, any) {
				var ds []string
				for _, w := range worldsOf(res.Plan) {
					ds = append(ds, describeWorld(w))
				}
				var qs []string
				ws := worldsOf(res.Plan)
				if len(ws) > 0 {
					last := ws[0].Incs[len(ws[0].Incs)-1]
					for _, op := range last.Ops {
						if op.Kind == "query" {
							qs = append(qs, op.Text)
						}
					}
				}
				return strings.Join(ds, " || "), len(ds) >= 2, map[string]any{"worlds": ds, "queries": qs, "events": res.Plan.Params["n_events"]}
			})
		},
		Oracle: func(res *RunResult) []Violation { return layoutOracle("C03", res) },
		Assumptions: []string{
			"only differences between layouts are reported; a filter that is wrong in the same way in every layout is C02's domain",
			"ordered queries (sort/head) are compared by result count only when ties could reorder them",
			"dc() may differ by the sketch error between layouts",
		},
		Components: stdComponents,
	})
}
