package main

import (
	"encoding/json"
	"fmt"
	"math/rand/v2"

	"simlens/plan"
)

// Memory-starved family of C17 ("the server answers with results or an error"): the node runs with a memory budget
// (memoryLimits.maxMemoryAllowedToUseInBytes) so small that a segment search may be refused its memory by the
// limiter - an allocation failure injected through the product's own configuration seam. Every query must then
// end in an error or in the complete answer; an empty or partial answer presented as a success is neither.
func genStarved(r *rand.Rand) *plan.Plan {
	k := plan.Knobs{Sched: true, Procs: []int{1, 2, 4}[r.IntN(3)]}
	k.MemBytes = []uint64{3_000, 6_000, 12_000, 24_000, 48_000, 200_000}[r.IntN(6)]
	n := 20 + r.IntN(180)
	nErr := 0
	var evs []json.RawMessage
	for i := 0; i < n; i++ {
		lvl := "info"
		if r.IntN(3) == 0 {
			lvl = "error"
			nErr++
		}
		evs = append(evs, json.RawMessage(fmt.Sprintf(`{"vid":"s%d","level":%q,"n":%d,"timestamp":%d}`, i, lvl, i, simEpochMs+int64(i))))
	}
	inc := plan.Incarnation{Boot: "full", SchedSeed: r.Uint64()>>11 | 1}
	nb := 1 + r.IntN(3)
	for b := 0; b < nb; b++ {
		lo, hi := n*b/nb, n*(b+1)/nb
		inc.Ops = append(inc.Ops, plan.Op{Kind: "ingest", Index: "st", Events: evs[lo:hi]}, plan.Op{Kind: "flush"})
	}
	if r.IntN(2) == 0 {
		inc.Ops = append(inc.Ops, plan.Op{Kind: "rotate"})
	}
	if r.IntN(2) == 0 {
		inc.Ops = append(inc.Ops, plan.Op{Kind: "advance", DurMs: 61_000}) // one pass of the limiter's rebalance loop
	}
	q := func(text string) plan.Op {
		return plan.Op{Kind: "query", Index: "st", Text: text, Start: qStart, End: qEnd, Size: n + 50}
	}
	for rep := 0; rep < 2; rep++ {
		inc.Ops = append(inc.Ops, q("*"), q("level=error"), q("* | stats count"), q("level=error | stats count"))
	}
	return &plan.Plan{Property: "C17", Knobs: k, Incs: []plan.Incarnation{inc}, Params: map[string]any{"starved": true, "n": n, "n_error": nErr}}
}

func starvedOracle(prop string, res *RunResult) []Violation {
	var vs []Violation
	if len(res.Incs) == 0 {
		return nil
	}
	ir := res.Incs[0]
	if ab := ir.Abnormal(); ab != "" {
		if ab == "harness" || ab == "wall-timeout" {
			return nil
		}
		site := ir.PanicSite()
		if ab == "hang" {
			site = ir.HangKind()
		}
		return []Violation{{Sig: prop + ":starved:node-" + ab + ":" + site, Msg: trimTo(ir.Stderr, 2000)}}
	}
	planJ := res.Plan.Clone()
	n := int(toFloat(planJ.Params["n"]))
	nErr := int(toFloat(planJ.Params["n_error"]))
	for oi, op := range planJ.Incs[0].Ops {
		if op.Kind != "query" {
			continue
		}
		e := ir.Get(fmt.Sprint(oi))
		if e == nil {
			break
		}
		if e.Err != "" {
			continue // rejected with an error: a legal terminal state
		}
		qd, err := decodeQ(e)
		if err != nil || len(qd.Errors) > 0 {
			continue
		}
		want := n
		if op.Text == "level=error" || op.Text == "level=error | stats count" {
			want = nErr
		}
		got := -1
		if len(qd.Measure) > 0 {
			if v, ok := toF(qd.Measure[0].M["count(*)"]); ok {
				got = int(v)
			}
		} else if qd.Qtype == "logs-query" || len(qd.Records) > 0 {
			got = len(qd.Records)
		}
		if got >= 0 && got != want {
			vs = append(vs, Violation{Sig: prop + ":starved:incomplete-answer-without-error", Msg: fmt.Sprintf("op %d %q with %d bytes of memory: answered %d of %d without any error", oi, op.Text, planJ.Knobs.MemBytes, got, want)})
		}
	}
	return vs
}

func toFloat(v any) float64 {
	switch x := v.(type) {
	case float64:
		return x
	case int:
		return float64(x)
	case int64:
		return float64(x)
	case json.Number:
		f, _ := x.Float64()
		return f
	}
	return 0
}
