package main

import (
	"crypto/sha256"
	"encoding/json"
	"fmt"
	"io/fs"
	"math/rand/v2"
	"os"
	"path/filepath"
	"sort"
	"strings"

	"simlens/plan"
)

// storeDigest hashes the log/metrics store part of the tree: segment directories and the metadata files.
func storeDigest(dir string) string {
	h := sha256.New()
	root := filepath.Join(dir, "d")
	var files []string
	_ = filepath.WalkDir(root, func(p string, d fs.DirEntry, err error) error {
		if err != nil || d.IsDir() {
			return nil
		}
		rel, _ := filepath.Rel(root, p)
		if strings.Contains(rel, "/final/") || strings.HasSuffix(rel, "segmeta.json") || strings.HasSuffix(rel, "metricmeta.json") || strings.HasSuffix(rel, "virtualtablenames.txt") {
			files = append(files, p)
		}
		return nil
	})
	sort.Strings(files)
	for _, f := range files {
		rel, _ := filepath.Rel(root, f)
		b, err := os.ReadFile(f)
		if err != nil {
			continue
		}
		if (strings.HasSuffix(rel, "segmeta.json") || strings.HasSuffix(rel, "metricmeta.json") || strings.HasSuffix(rel, "virtualtablenames.txt")) && len(strings.TrimSpace(string(b))) == 0 {
			// an empty list and no list are the same outcome (start-up creates an empty segmeta.json when there is
			// none; a pass that deleted the last segment removes the file)
			continue
		}
		if strings.HasSuffix(rel, "segmeta.json") || strings.HasSuffix(rel, "virtualtablenames.txt") {
			// line order is not part of the outcome
			lines := strings.Split(strings.TrimSpace(string(b)), "\n")
			sort.Strings(lines)
			b = []byte(strings.Join(lines, "\n"))
		}
		fmt.Fprintf(h, "%s|%x\n", rel, sha256.Sum256(b))
	}
	return fmt.Sprintf("%x", h.Sum(nil))[:24]
}

const hourMs = 3_600_000

// genRetentionHistory: rotated segments with time ranges placed around the horizon, one open segment, then a
// retention pass, queries, a restart, the pass again (idempotence), queries.
func genRetentionHistory(r *rand.Rand) *plan.Plan {
	k := plan.Knobs{Sched: true, Procs: []int{1, 2, 4}[r.IntN(3)]}
	if r.IntN(2) == 0 {
		k.PQS = &boolF
	}
	p := &plan.Plan{Knobs: k, Params: map[string]any{"fs_trace": true}}
	H := []int{1, 6, 24, 72}[r.IntN(4)]
	p.Params["retention_hours"] = H
	now := int64(simEpochMs) + 2000
	inc := plan.Incarnation{Boot: "full", SchedSeed: r.Uint64()>>11 | 1}
	nIdx := 1 + r.IntN(2)
	names := []string{"ra", "rb"}[:nIdx]
	nseg := 2 + r.IntN(5)
	n := 0
	newestOf := map[string][]int64{}
	for s := 0; s < nseg; s++ {
		for _, ix := range names {
			if r.IntN(4) == 0 {
				continue
			}
			// the segment's newest event relative to the horizon: clearly older, clearly newer, or straddling
			var newestAgo, span int64
			switch r.IntN(4) {
			case 0:
				newestAgo = int64(H)*hourMs + int64(5+r.IntN(600))*60_000 // older than the horizon
			case 1:
				newestAgo = int64(H)*hourMs - int64(5+r.IntN(50))*60_000 // newer (within the last hour before the horizon)
				if newestAgo < 60_000 {
					newestAgo = 60_000
				}
			case 2:
				newestAgo = int64(r.IntN(50)+1) * 60_000 // recent
			default:
				newestAgo = int64(H)*hourMs + int64(2+r.IntN(10))*60_000
			}
			// one segment in three shares its newest instant with an earlier segment of the same index (bursts
			// split over segments, re-ingested batches): ties in every ordering by time
			if prev := newestOf[ix]; len(prev) > 0 && r.IntN(3) == 0 {
				newestAgo = prev[r.IntN(len(prev))]
			}
			newestOf[ix] = append(newestOf[ix], newestAgo)
			span = int64(r.IntN(5*hourMs/1000)) * 1000
			var evs []json.RawMessage
			ne := 1 + r.IntN(12)
			for j := 0; j < ne; j++ {
				n++
				ts := now - newestAgo - int64(r.IntN(int(span/1000)+1))*1000
				if j == 0 {
					ts = now - newestAgo
				}
				evs = append(evs, json.RawMessage(fmt.Sprintf(`{"vid":"r%d","timestamp":%d,"seg":%d,"idx":%q,"n":%d}`, n, ts, s, ix, n)))
			}
			inc.Ops = append(inc.Ops, plan.Op{Kind: "ingest", Index: ix, Events: evs})
		}
		inc.Ops = append(inc.Ops, plan.Op{Kind: "rotate"})
	}
	// an open (unrotated) segment, sometimes with old data: retention must not touch it
	if r.IntN(2) == 0 {
		n++
		ago := int64(H)*hourMs + 3*hourMs
		if r.IntN(2) == 0 {
			ago = 120_000
		}
		inc.Ops = append(inc.Ops, plan.Op{Kind: "ingest", Index: names[0], Events: []json.RawMessage{json.RawMessage(fmt.Sprintf(`{"vid":"r%d","timestamp":%d,"seg":-1,"idx":%q,"n":%d}`, n, now-ago, names[0], n))}}, plan.Op{Kind: "flush"})
	}
	// metrics segments of one shard (they share one tags tree directory), rotated in seeded order of age:
	// late-arriving old datapoints may be rotated after a segment that holds recent ones
	nm := 0
	if r.IntN(2) == 0 {
		nm = 2 + r.IntN(3)
	}
	p.Params["metric_segments"] = nm
	for s := 0; s < nm; s++ {
		var newestAgo int64
		switch r.IntN(3) {
		case 0:
			newestAgo = int64(H)*hourMs + int64(5+r.IntN(300))*60_000
		case 1:
			newestAgo = int64(r.IntN(50)+1) * 60_000
		default:
			newestAgo = int64(H)*hourMs - int64(5+r.IntN(50))*60_000
			if newestAgo < 60_000 {
				newestAgo = 60_000
			}
		}
		var dps []json.RawMessage
		for h := 0; h < 2; h++ {
			for j := 0; j < 1+r.IntN(3); j++ {
				// distinct seconds per (segment, series, j): a point is attributable to its segment
				ts := (now-newestAgo)/1000 - int64(j*120+s*7+h)
				dps = append(dps, json.RawMessage(fmt.Sprintf(`{"metric":"retm","tags":{"host":"h%d"},"timestamp":%d,"value":%d}`, h, ts, s*100+j)))
			}
		}
		inc.Ops = append(inc.Ops, plan.Op{Kind: "mput", Events: dps}, plan.Op{Kind: "mrotate"})
	}
	if nm > 0 {
		// rotated metrics data becomes searchable with the next flush of the tags tree (a 60 s timer)
		inc.Ops = append(inc.Ops, plan.Op{Kind: "advance", DurMs: 65_000})
	}
	queries := func() []plan.Op {
		var ops []plan.Op
		if nm > 0 {
			for h := 0; h < 2; h++ {
				ops = append(ops, plan.Op{Kind: "mquery", Text: fmt.Sprintf(`retm{host="h%d"}`, h), Start: (now - int64(H+12)*hourMs) / 1000, End: (now + hourMs) / 1000, Step: 1})
			}
		}
		for _, ix := range names {
			ops = append(ops, plan.Op{Kind: "query", Index: ix, Text: "*", Start: 1, End: qEnd, Size: 2000, Args: map[string]any{"includeNulls": true}},
				plan.Op{Kind: "query", Index: ix, Text: "* | stats count", Start: 1, End: qEnd})
		}
		return ops
	}
	inc.Ops = append(inc.Ops, plan.Op{Kind: "retention", Args: map[string]any{"hours": H}})
	inc.Ops = append(inc.Ops, queries()...)
	inc1 := plan.Incarnation{Boot: "full", SchedSeed: r.Uint64()>>11 | 1}
	inc1.Ops = append(inc1.Ops, queries()...)
	inc1.Ops = append(inc1.Ops, plan.Op{Kind: "retention", Args: map[string]any{"hours": H}})
	inc1.Ops = append(inc1.Ops, queries()...)
	p.Incs = []plan.Incarnation{inc, inc1}
	return p
}

// retentionOracle: victims are exactly the rotated segments whose newest event is older than the horizon.
func retentionOracle(prop string, res *RunResult) []Violation {
	var vs []Violation
	H := paramInt(res.Plan.Params["retention_hours"], 24)
	type seg struct {
		index   string
		evs     []*Event
		rotated bool
		newest  int64
		flushed int
		deleted bool
	}
	type mseg struct {
		pts     map[string][]int64 // host -> timestamps (s)
		newest  int64
		rotated bool
		deleted bool
	}
	var msegs []*mseg
	var mopen *mseg
	var segs []*seg
	open := map[string]*seg{}
	byVID := map[string]*Event{}
	passDone := false
	var horizon int64
	for ii, inc := range res.Plan.Incs {
		if ii >= len(res.Incs) {
			break
		}
		ir := res.Incs[ii]
		if ab := ir.Abnormal(); ab != "" && ab != "harness" && ab != "wall-timeout" {
			site := ir.PanicSite()
			if ab == "hang" {
				site = ir.HangKind()
			}
			vs = append(vs, Violation{Sig: prop + ":node-" + ab + ":" + site, Msg: fmt.Sprintf("inc %d: %s", ii, trimTo(ir.Stderr, 1500))})
			continue
		}
		if b := ir.Get("boot"); ii > 0 && (b == nil || b.Err != "") && ir.Exit != 77 {
			vs = append(vs, Violation{Sig: prop + ":startup-failed-after-interrupted-pass", Msg: fmt.Sprintf("inc %d", ii)})
			continue
		}
		crashed := ir.Exit == 77
		if ii > 0 {
			// a restart adopts every open segment as a rotated one; what was never flushed is gone
			for ix, sg := range open {
				sg.evs = sg.evs[:sg.flushed]
				sg.newest = 0
				for _, ev := range sg.evs {
					if ev.TS > sg.newest {
						sg.newest = ev.TS
					}
				}
				sg.rotated = true
				delete(open, ix)
			}
		}
		for oi := range inc.Ops {
			op := &inc.Ops[oi]
			e := ir.Get(fmt.Sprint(oi))
			if e == nil {
				break
			}
			where := fmt.Sprintf("inc %d op %d", ii, oi)
			switch op.Kind {
			case "ingest":
				mm := newLogModel()
				mm.applyIngest(op, e)
				s := open[op.Index]
				if s == nil {
					s = &seg{index: op.Index}
					open[op.Index] = s
					segs = append(segs, s)
				}
				for _, ev := range mm.ByIndex[op.Index] {
					s.evs = append(s.evs, ev)
					byVID[ev.VID] = ev
					if ev.TS > s.newest {
						s.newest = ev.TS
					}
				}
			case "mput":
				if mopen == nil {
					mopen = &mseg{pts: map[string][]int64{}}
					msegs = append(msegs, mopen)
				}
				for _, raw := range op.Events {
					var d struct {
						Tags map[string]string `json:"tags"`
						T    int64             `json:"timestamp"`
					}
					_ = json.Unmarshal(raw, &d)
					mopen.pts[d.Tags["host"]] = append(mopen.pts[d.Tags["host"]], d.T)
					if d.T > mopen.newest {
						mopen.newest = d.T
					}
				}
				rej := 0
				var de struct {
					Errors []string `json:"errors"`
				}
				_ = json.Unmarshal(e.Data, &de)
				for _, x := range de.Errors {
					if x != "" {
						rej++
					}
				}
				if rej > 0 {
					vs = append(vs, Violation{Sig: prop + ":valid-datapoint-rejected", Msg: fmt.Sprintf("%s: %d datapoints rejected: %s", where, rej, trimTo(string(e.Data), 300))})
				}
			case "mrotate":
				if mopen != nil {
					mopen.rotated = true
					mopen = nil
				}
			case "mquery":
				if !passDone {
					continue
				}
				if e.Err != "" {
					vs = append(vs, Violation{Sig: prop + ":metrics-query-error-after-pass", Msg: where + ": " + op.Text + ": " + e.Err})
					continue
				}
				q, err := decodeMQ(e)
				if err != nil {
					continue
				}
				host := "h0"
				if strings.Contains(op.Text, `"h1"`) {
					host = "h1"
				}
				got := map[int64]bool{}
				for name, pts := range q.Series {
					if !strings.HasPrefix(name, "retm{") {
						continue
					}
					for _, pt := range pts {
						got[int64(pt.T)] = true
					}
				}
				for _, ms := range msegs {
					for _, t := range ms.pts[host] {
						switch {
						case ms.deleted && got[t]:
							vs = append(vs, Violation{Sig: prop + ":expired-metrics-segment-still-searchable", Msg: fmt.Sprintf("%s: retm{host=%s}@%d belongs to a rotated metrics segment whose newest datapoint (%d) is older than the horizon %d", where, host, t, ms.newest, horizon/1000)})
						case !ms.deleted && !got[t]:
							vs = append(vs, Violation{Sig: prop + ":unexpired-metrics-data-deleted", Msg: fmt.Sprintf("%s: retm{host=%s}@%d is gone although its segment holds a datapoint (%d) newer than the horizon %d (or is still open)", where, host, t, ms.newest, horizon/1000)})
						}
					}
				}
			case "flush":
				for _, sg := range open {
					sg.flushed = len(sg.evs)
				}
			case "rotate":
				for ix, sg := range open {
					sg.flushed = len(sg.evs)
					sg.rotated = true
					delete(open, ix)
				}
			case "retention":
				passDone = true
				horizon = e.SimMs - int64(H)*hourMs
				for _, sg := range segs {
					if sg.rotated && sg.newest <= horizon {
						sg.deleted = true
					}
				}
				for _, ms := range msegs {
					if ms.rotated && ms.newest*1000 <= horizon {
						ms.deleted = true
					}
				}
				// the node's three in-memory views of the rotated log segments must name the same segments after
				// a pass (the per-index list is what searches read; the others are what the next pass reads)
				var mem struct {
					G []string `json:"mem_global"`
					R []string `json:"mem_reverse"`
					T []string `json:"mem_per_index"`
				}
				if json.Unmarshal(e.Data, &mem) == nil && (mem.G != nil || mem.R != nil || mem.T != nil) {
					g, rv, t := strings.Join(mem.G, ","), strings.Join(mem.R, ","), strings.Join(mem.T, ",")
					if g != rv || g != t {
						vs = append(vs, Violation{Sig: prop + ":in-memory-segment-lists-disagree-after-pass", Msg: fmt.Sprintf("%s: global=[%s] reverse=[%s] per-index (read by searches)=[%s]", where, g, rv, t)})
					}
				}
			case "query":
				if !passDone {
					continue
				}
				if e.Err != "" {
					vs = append(vs, Violation{Sig: prop + ":query-error-after-pass", Msg: where + ": " + op.Text + ": " + e.Err})
					continue
				}
				q, err := decodeQ(e)
				if err != nil {
					continue
				}
				if len(q.Errors) > 0 {
					vs = append(vs, Violation{Sig: prop + ":query-reports-errors-after-pass", Msg: where + ": " + strings.Join(q.Errors, "; ")})
				}
				want := map[string]bool{}
				gone := map[string]bool{}
				for _, s := range segs {
					if s.index != op.Index {
						continue
					}
					victim := s.deleted
					visible := s.evs
					if !s.rotated {
						visible = s.evs[:s.flushed]
					}
					for _, ev := range visible {
						if victim {
							gone[ev.VID] = true
						} else {
							want[ev.VID] = true
						}
					}
				}
				if strings.Contains(op.Text, "stats count") {
					got := int64(0)
					for _, b := range q.Measure {
						for _, v := range b.M {
							if f, ok := toF(v); ok {
								got = int64(f)
							}
						}
					}
					if got != int64(len(want)) {
						vs = append(vs, Violation{Sig: prop + ":count-after-pass-wrong", Msg: fmt.Sprintf("%s: count=%d, survivors hold %d events (horizon %d)", where, got, len(want), horizon)})
					}
					continue
				}
				seen := map[string]bool{}
				for _, rec := range q.Records {
					vid, _ := rec["vid"].(string)
					seen[vid] = true
					if gone[vid] {
						vs = append(vs, Violation{Sig: prop + ":expired-segment-still-searchable", Msg: fmt.Sprintf("%s: %s (ts %d) belongs to a rotated segment whose newest event is older than the horizon %d", where, vid, byVID[vid].TS, horizon)})
						break
					}
				}
				for vid := range want {
					if !seen[vid] {
						ev := byVID[vid]
						vs = append(vs, Violation{Sig: prop + ":unexpired-data-deleted", Msg: fmt.Sprintf("%s: %s (ts %d, index %s) is gone although its segment holds an event newer than the horizon %d (or is still open)", where, vid, ev.TS, op.Index, horizon)})
						break
					}
				}
			}
		}
		_ = crashed
	}
	return dedupV(vs)
}

func init() {
	register(&Check{
		ID:    "C14",
		Level: "fault_enumeration",
		Rule: "for each seeded history (1-2 indexes, 2-6 rotated segments whose newest event lies clearly before / after the retention horizon or whose range straddles it, optionally an open segment with old data) a time-based retention pass runs on the fake clock; then queries, a restart, the pass again, queries. Enumeration: the process _exits after every mutating fs call k of the pass (thorough: all k; quick: all k of 4 histories up to a cap); the next incarnation repeats the pass and the final store digest (segment directories, segmeta.json, metrics meta, table names) must equal that of the uninterrupted run. distinct = (history, digest of the store at the crash); non-trivial = the pass had at least one victim",
		Run:   runC14,
		Oracle: func(res *RunResult) []Violation {
			vs := retentionOracle("C14", res)
			// crash-point jobs carry the store digest of the uninterrupted run of the same history: the
			// interrupted-and-repeated pass must end in the same store (part of the oracle, so that a replay and the
			// confirmation in fresh processes judge the same thing)
			if want, _ := res.Plan.Params["expect_digest"].(string); want != "" && res.Dir != "" && len(res.Incs) == 2 && res.Incs[1].Exit == 0 {
				if d := storeDigest(res.Dir); d != want {
					vs = append(vs, Violation{Sig: "C14:interrupted-and-repeated-pass-differs-from-uninterrupted", Msg: fmt.Sprintf("%s: store digest %s, uninterrupted run %s", res.Plan.Note, d, want)})
				}
			}
			return vs
		},
		// the expected digest belongs to the whole history: a shrunk history would have another one
		Pinned: func(op *plan.Op) bool { return true },
		Assumptions: []string{
			"segments are placed at least two minutes away from the horizon (equality with the horizon is not exercised)",
			"the volume- and inode-based passes are not driven yet (only the time-based pass)",
		},
		Components: stdComponents,
	})
}

func runC14(c *Ctx) {
	nHist, cap := 4, 40
	nFree := 40
	if !c.Quick() {
		nHist, cap, nFree = 60, 1<<30, 600
	}
	// fault-free exploration of histories
	c.Explore(nFree, func(r *rand.Rand, i int) *plan.Plan { return genRetentionHistory(r) }, func(res *RunResult) (string, bool, any) {
		return "free-" + opShape(res.Plan) + fmt.Sprint(res.Plan.Params["retention_hours"]), true, nil
	})
	type job struct {
		p      *plan.Plan
		hist   int
		k      int
		digest string
		call   string
	}
	var jobs []job
	exhaustive := true
	var jm []job
	c.Parallel(nHist, 0, func(i int) {
		r := c.Rng(uint64(9000 + i))
		p := genRetentionHistory(r)
		p.Property = "C14"
		p.Seed = c.Seed*1_000_003 + uint64(9000+i)
		res, err := RunPlan(p, genericBetween)
		if err != nil || harnessTrouble(res) != "" {
			c.Harness(fmt.Sprintf("base %d: %v", i, err))
			return
		}
		digest := storeDigest(res.Dir)
		vs := c.Check.Oracle(res)
		c.Account(res, fmt.Sprintf("h%d-uninterrupted", i), true, map[string]any{"history": opShape(p), "retention_hours": p.Params["retention_hours"]})
		c.Report(p, vs)
		// fs call range of the retention op of incarnation 0
		lo, hi := 0, 0
		for oi, op := range p.Incs[0].Ops {
			if op.Kind == "retention" {
				if e := res.Incs[0].Get(fmt.Sprint(oi)); e != nil {
					hi = e.FsOps
				}
				if oi > 0 {
					if e := res.Incs[0].Get(fmt.Sprint(oi - 1)); e != nil {
						lo = e.FsOps
					}
				}
			}
		}
		tr := fsTraceOf(res.Incs[0])
		res.Cleanup()
		c.mu.Lock()
		for k := lo + 1; k <= hi && k <= len(tr); k++ {
			if k-lo > cap {
				exhaustive = false
				break
			}
			jm = append(jm, job{p: p, hist: i, k: k, digest: digest, call: tr[k-1].Op + " " + fileKind(tr[k-1].Path)})
		}
		c.mu.Unlock()
	})
	jobs = jm
	done := 0
	c.Parallel(len(jobs), 0, func(j int) {
		jb := jobs[j]
		p := jb.p.Clone()
		p.Incs[0].Faults = []plan.Fault{{Kind: "crash_after", At: jb.k}}
		p.Note = fmt.Sprintf("history %d: crash after fs call %d (%s) inside the retention pass", jb.hist, jb.k, jb.call)
		p.Params["expect_digest"] = jb.digest
		var atCrash string
		res, err := RunPlan(p, func(dir string, next int) error {
			if next == 1 {
				atCrash = storeDigest(dir)
			}
			return nil
		})
		if err != nil || harnessTrouble(res) != "" {
			c.Harness(fmt.Sprintf("job %d: %v", j, err))
			return
		}
		defer res.Cleanup()
		vs := c.Check.Oracle(res)
		c.mu.Lock()
		done++
		c.mu.Unlock()
		c.Account(res, fmt.Sprintf("h%d-%s", jb.hist, atCrash), true, map[string]any{"history": jb.hist, "crash_after_fs_call": jb.k, "call": jb.call})
		c.CrashState(fmt.Sprintf("h%d-%s", jb.hist, atCrash))
		c.Probe("crash@"+jb.call, 1)
		c.Report(p, vs)
	})
	ex := exhaustive && done == len(jobs) && !c.Stopped()
	c.exhaustive = &ex
	c.SetExtra("crash_points_planned", len(jobs))
	c.SetExtra("crash_points_run", done)
}

// paramInt reads a numeric plan parameter whether the plan is fresh (Go int) or went through JSON (float64).
func paramInt(v any, def int) int {
	switch x := v.(type) {
	case int:
		return x
	case int64:
		return int(x)
	case float64:
		return int(x)
	case json.Number:
		i, _ := x.Int64()
		return int(i)
	}
	return def
}
