package main

import (
	"bytes"
	"encoding/json"
	"fmt"
	"math/rand/v2"
	"mime/multipart"
	"net/url"
	"os"
	"path/filepath"
	"sort"
	"strings"

	"simlens/plan"
)

var hostileNames = []string{
	"../evil", "../../evil", "../../../../../../../../tmp/simlens-evil", "/tmp/simlens-evil-abs", "a/../../evil", "..", ".", "a/b/c",
	"..\\evil", "%2e%2e%2fevil", "%2e%2e/%2e%2e/evil", "....//evil", "sent/keep", "../sent/keep", "../../sent/keep.csv", "evil\x00tail",
	"..%2fevil", "%252e%252e%252fevil", "‥/evil", "．．/evil", "..;/evil", strings.Repeat("A", 300), strings.Repeat("../", 40) + "etc/passwd",
	"../../../evil", "../../../../evil", "../../../../../sent/keep", "../../../../etc/passwd", "d/../../evil", "./../evil", "logs/../../evil", "~/evil", "$HOME/evil", "con", "nul", "a\nb", " ", "x y", "-rf",
}

var benignNames = []string{"good", "ok-1", "my_index", "Report2024", "a.b"}

func multipartBody(fields map[string]string, fileField, fileName string, content []byte) (string, string) {
	var b bytes.Buffer
	w := multipart.NewWriter(&b)
	keys := make([]string, 0, len(fields))
	for k := range fields {
		keys = append(keys, k)
	}
	sort.Strings(keys)
	for _, k := range keys {
		_ = w.WriteField(k, fields[k])
	}
	fw, _ := w.CreateFormFile(fileField, fileName)
	_, _ = fw.Write(content)
	_ = w.Close()
	return b.String(), w.FormDataContentType()
}

func genPathPlan(r *rand.Rand) *plan.Plan {
	k := plan.Knobs{Sched: true, Procs: 2, PQS: &boolF}
	p := &plan.Plan{Knobs: k, Params: map[string]any{"path_police": true, "sentinel": true}}
	inc := plan.Incarnation{Boot: "full", SchedSeed: r.Uint64()>>11 | 1}
	name := func() string {
		if r.IntN(4) == 0 {
			return benignNames[r.IntN(len(benignNames))]
		}
		nm := hostileNames[r.IntN(len(hostileNames))]
		// one name in three travels percent-encoded (separators, dots, or both; upper or lower hex): a check that
		// runs before a decode sees no separator in it. Names that already carry an encoding get a second layer.
		if r.IntN(3) == 0 {
			slash, dots := "%2F", "%2E%2E"
			if r.IntN(2) == 0 {
				slash, dots = "%2f", "%2e%2e"
			}
			switch r.IntN(3) {
			case 0:
				nm = strings.ReplaceAll(nm, "/", slash)
			case 1:
				nm = strings.ReplaceAll(strings.ReplaceAll(nm, "/", slash), "..", dots)
			default:
				nm = strings.ReplaceAll(strings.ReplaceAll(nm, "%", "%25"), "/", slash)
			}
			nm = strings.ReplaceAll(nm, "\\", "%5C")
		}
		// lookup files are stored under *.csv / *.csv.gz: some names carry the extension themselves
		if r.IntN(4) == 0 {
			nm += []string{".csv", ".csv.gz", ".CSV"}[r.IntN(3)]
		}
		return nm
	}
	httpOp := func(server, method, path, body string, hdr map[string]any, api string) plan.Op {
		args := map[string]any{"server": server, "method": method, "path": path, "api": api}
		if hdr != nil {
			args["headers"] = hdr
		}
		return plan.Op{Kind: "http", Body: body, Args: args}
	}
	n := 6 + r.IntN(14)
	for i := 0; i < n; i++ {
		nm := name()
		enc := url.PathEscape(nm)
		switch r.IntN(12) {
		case 0: // index name in a bulk body, then flush (segment directories are built from the index name)
			doc := fmt.Sprintf(`{"vid":"p%d","timestamp":%d,"a":1}`, i, simEpochMs+int64(i))
			act, _ := json.Marshal(map[string]any{"index": map[string]any{"_index": nm}})
			inc.Ops = append(inc.Ops, httpOp("ingest", "POST", "/elastic/_bulk", string(act)+"\n"+doc+"\n", nil, "bulk-index-name"), plan.Op{Kind: "flush"})
		case 1:
			inc.Ops = append(inc.Ops, httpOp("ingest", "PUT", "/elastic/"+enc, `{"mappings":{}}`, nil, "put-index"))
		case 2: // lookup upload
			body, ct := multipartBody(map[string]string{"name": nm, "overwrite": []string{"true", "false"}[r.IntN(2)]}, "file", "data.csv", []byte("k,v\n1,2\n"))
			inc.Ops = append(inc.Ops, httpOp("query", "POST", "/api/lookup-upload", body, map[string]any{"Content-Type": ct}, "lookup-upload"))
		case 3:
			inc.Ops = append(inc.Ops, httpOp("query", "GET", "/api/lookup-files/"+enc, "", nil, "lookup-get"))
		case 4:
			inc.Ops = append(inc.Ops, httpOp("query", "DELETE", "/api/lookup-files/"+enc, "", nil, "lookup-delete"))
		case 5:
			inc.Ops = append(inc.Ops, httpOp("query", "GET", "/api/dashboards/"+enc, "", nil, "dashboard-get"))
		case 6:
			inc.Ops = append(inc.Ops, httpOp("query", "GET", "/api/dashboards/delete/"+enc, "", nil, "dashboard-delete"))
		case 7:
			b, _ := json.Marshal(map[string]any{"id": nm, "name": nm, "details": map[string]any{"name": nm, "description": "x"}})
			inc.Ops = append(inc.Ops, httpOp("query", "POST", "/api/dashboards/update", string(b), nil, "dashboard-update"))
		case 8:
			b, _ := json.Marshal(map[string]any{"queryName": nm, "queryDescription": "d", "searchText": "*", "indexName": "*", "queryLanguage": "Splunk QL"})
			inc.Ops = append(inc.Ops, httpOp("query", "POST", "/api/usersavedqueries/save", string(b), nil, "usq-save"),
				httpOp("query", "GET", "/api/usersavedqueries/deleteone/"+enc, "", nil, "usq-delete"))
		case 9:
			inc.Ops = append(inc.Ops, plan.Op{Kind: "query", Index: "*", Text: "| inputlookup " + nm, Start: qStart, End: qEnd, Args: map[string]any{"api": "inputlookup"}})
		case 10:
			inc.Ops = append(inc.Ops, plan.Op{Kind: "mput", Events: []json.RawMessage{DP{Metric: nm, Tags: map[string]string{nm: nm}, TS: uint32(simEpochMs/1000) + uint32(i), V: 1}.Raw()}})
		default:
			inc.Ops = append(inc.Ops, httpOp("query", "PUT", "/elastic/good/_alias/"+enc, "", nil, "alias-put"), httpOp("query", "GET", "/elastic/"+enc+"/_alias/"+enc, "", nil, "alias-get"))
		}
	}
	inc.Ops = append(inc.Ops, plan.Op{Kind: "advance", DurMs: 65_000}, plan.Op{Kind: "shutdown"})
	p.Incs = []plan.Incarnation{inc}
	return p
}

// sentinel files live in the scratch directory, around the data and log directories.
var sentinelFiles = map[string]string{"evil": "E", "evil.csv": "k,v\n", "sent/keep": "K", "sent/keep.csv": "k\n", "etc/passwd": "root"}

func writeSentinels(dir string) {
	for f, c := range sentinelFiles {
		p := filepath.Join(dir, f)
		_ = os.MkdirAll(filepath.Dir(p), 0o755)
		_ = os.WriteFile(p, []byte(c), 0o644)
	}
}

func checkSentinels(dir string) string {
	for f, c := range sentinelFiles {
		b, err := os.ReadFile(filepath.Join(dir, f))
		if err != nil {
			return f + " deleted"
		}
		if string(b) != c {
			return f + " modified"
		}
	}
	// nothing new next to the data directory
	ents, _ := os.ReadDir(dir)
	for _, e := range ents {
		switch n := e.Name(); {
		case n == "d" || n == "logs" || n == "sent" || n == "etc" || n == "evil" || n == "evil.csv" || n == "plan.json" || n == "clock" || strings.HasPrefix(n, "journal."):
		case strings.HasPrefix(n, "multipart-") || strings.HasPrefix(n, "go-build"):
		default:
			return "new entry " + n + " in the directory around the data directory"
		}
	}
	return ""
}

func pathOracle(prop string, res *RunResult) []Violation {
	var vs []Violation
	if len(res.Incs) == 0 {
		return nil
	}
	ir := res.Incs[0]
	if ab := ir.Abnormal(); ab != "" && ab != "harness" && ab != "wall-timeout" {
		site := ir.PanicSite()
		if ab == "hang" {
			site = ir.HangKind()
		}
		vs = append(vs, Violation{Sig: prop + ":node-" + ab + ":" + site, Msg: trimTo(ir.Stderr, 1500)})
	}
	end := ir.End()
	if end != nil {
		var esc []struct {
			Op    string `json:"op"`
			Path  string `json:"path"`
			Abs   string `json:"abs"`
			Stack string `json:"stack"`
		}
		_ = json.Unmarshal(end["escapes"], &esc)
		for _, e := range esc {
			if allowedOutside(e.Path) {
				continue
			}
			site := "?"
			if fs := strings.Split(e.Stack, ";"); len(fs) > 0 && fs[0] != "" {
				site = fs[0]
				if i := strings.LastIndex(site, "/pkg/"); i >= 0 {
					site = site[i+1:]
				}
				if j := strings.LastIndexByte(site, ':'); j > 0 {
					site = site[:j]
				}
			}
			vs = append(vs, Violation{Sig: fmt.Sprintf("%s:file-operation-outside-data-dir:%s", prop, site), Msg: fmt.Sprintf("%s %q resolves to %s (outside the data and log directories); stack %s", e.Op, e.Path, e.Abs, trimTo(e.Stack, 400))})
		}
	}
	if res.Dir != "" {
		if _, err := os.Stat(res.Dir); err == nil {
			if s := checkSentinels(res.Dir); s != "" {
				vs = append(vs, Violation{Sig: prop + ":sentinel-tree-changed", Msg: s})
			}
		}
	}
	for _, f := range []string{"/tmp/simlens-evil", "/tmp/simlens-evil-abs", "/tmp/simlens-evil.csv", "/tmp/simlens-evil-abs.csv"} {
		if _, err := os.Stat(f); err == nil {
			vs = append(vs, Violation{Sig: prop + ":file-created-at-absolute-path", Msg: f})
			_ = os.RemoveAll(f)
		}
	}
	return dedupV(vs)
}

// configured, read-only locations outside the data directory that the shipped code reads by design
func allowedOutside(p string) bool {
	return strings.HasPrefix(p, "defaultDBs/") || p == "defaultDBs" || strings.HasPrefix(p, "/proc/") || strings.HasPrefix(p, "/sys/") || p == "server.yaml" || p == "data/common/runmod.cfg" || strings.HasPrefix(p, "static/")
}

func init() {
	register(&Check{
		ID:    "C19",
		Level: "exploration",
		Rule: "each case is a seeded sequence of 6-19 API operations whose names are drawn from 34 hostile forms ('../', absolute paths, encoded and unicode dots and slashes, NUL, backslashes, 300-character names, names of sentinel files, reserved names) and a few benign ones: index names in bulk bodies (+flush), PUT index, lookup upload/get/delete, dashboard get/update/delete, saved-query save/delete, `inputlookup`, metric and tag names, alias put/get - all through the in-memory HTTP listener or the real entry points; then the 60 s timers run and the node shuts down. Oracle: the path police of the disk seam (allowed roots = data and log directory only) recorded no operation outside the roots, and a sentinel tree around the data directory is unchanged. distinct = distinct (API, name) sequences; non-trivial = at least one hostile name reached an API that builds a path",
		Run: func(c *Ctx) {
			n := 150
			if !c.Quick() {
				n = 5000
			}
			c.Explore(n, func(r *rand.Rand, i int) *plan.Plan { return genPathPlan(r) }, func(res *RunResult) (string, bool, any) {
				var sb strings.Builder
				var apis []string
				for _, op := range res.Plan.Incs[0].Ops {
					if api, ok := op.Args["api"].(string); ok {
						p, _ := op.Args["path"].(string)
						fmt.Fprintf(&sb, "%s:%s|", api, trimTo(p, 40))
						apis = append(apis, api)
					} else if op.Kind == "mput" {
						sb.WriteString("mput|")
					}
				}
				return sb.String(), true, map[string]any{"apis": apis, "first_ops": trimTo(sb.String(), 300)}
			})
		},
		Exec: func(p *plan.Plan) (*RunResult, error) {
			return RunPlanPre(p, genericBetween, writeSentinels)
		},
		Oracle: func(res *RunResult) []Violation { return pathOracle("C19", res) },
		Assumptions: []string{
			"reads of the configured, fixed locations defaultDBs/, static/, server.yaml and /proc are by design and are not client-controlled",
			"operations that bypass package os inside third-party code are seen only through the sentinel tree",
		},
		Components: stdComponents,
	})
}
