package main

import (
	"encoding/json"
	"fmt"
	"io/fs"
	"math/rand/v2"
	"os"
	"path/filepath"
	"sort"
	"strings"

	"simlens/plan"
)

const mStart = simEpochMs/1000 - 3600
const mEnd = simEpochMs/1000 + 3000*86400

// genWalHistory: incarnation 0 ingests datapoints in rounds; after each round the clock advances past the
// 1-second WAL flush timers (datapoints, metric names, meta entries). Knobs force in-line WAL appends, WAL
// file rotation and block rotation (which deletes WAL files).
// blockRot: the history is built so that a datapoint block is rotated by size in the middle of it (small block
// size knob, the 10 s rotation timer after the second round) and more rounds follow: the crash points after that
// rotation have a flushed block N on disk and the datapoints of block N+1 in the WAL.
func genWalHistory(r *rand.Rand, blockRot bool) *plan.Plan {
	k := plan.Knobs{Sched: true, Procs: 1 + r.IntN(2), MetricsKnobs: map[string]int{}}
	if r.IntN(2) == 0 {
		k.MetricsKnobs["wal_block_flush"] = 3 + r.IntN(8)
	}
	if r.IntN(2) == 0 {
		k.MetricsKnobs["max_wal_file_bytes"] = 60 + r.IntN(200)
	}
	if r.IntN(3) == 0 || blockRot {
		k.MetricsKnobs["max_block_bytes"] = 100 + r.IntN(400)
		if blockRot {
			k.MetricsKnobs["max_block_bytes"] = 60 + r.IntN(100)
		}
	}
	p := &plan.Plan{Knobs: k, Params: map[string]any{"fs_trace": true}}
	nMetrics := 1 + r.IntN(3)
	type ser struct {
		metric string
		tags   map[string]string
		ts     uint32
	}
	var sers []*ser
	for mI := 0; mI < nMetrics; mI++ {
		ns := 1 + r.IntN(3)
		for s := 0; s < ns; s++ {
			sers = append(sers, &ser{metric: fmt.Sprintf("m%d", mI), tags: map[string]string{"host": fmt.Sprintf("h%d", s), "dc": []string{"east", "west"}[r.IntN(2)]}, ts: uint32(simEpochMs/1000) + uint32(r.IntN(50))})
		}
	}
	inc := plan.Incarnation{Boot: "full", SchedSeed: r.Uint64()>>11 | 1}
	val := 1.0
	rounds := 3 + r.IntN(4)
	names := map[string]bool{}
	// round 0 introduces every series, then the clock passes the 60 s tags-tree flush timer: the tags tree
	// (series -> tags) has no write-ahead log of its own, so datapoints of a series are reachable by a
	// selector after a crash only once its tags were flushed; C10 is about the WALs, not about that.
	{
		var evs []json.RawMessage
		for _, s := range sers {
			s.ts += 1 + uint32(r.IntN(40))
			val += 0.25 + float64(r.IntN(7))
			evs = append(evs, DP{Metric: s.metric, Tags: s.tags, TS: s.ts, V: val}.Raw())
			names[s.metric] = true
		}
		inc.Ops = append(inc.Ops, plan.Op{Kind: "mput", Events: evs}, plan.Op{Kind: "advance", DurMs: 61_000})
	}
	for rd := 0; rd < rounds; rd++ {
		n := 6 + r.IntN(25)
		var evs []json.RawMessage
		for i := 0; i < n; i++ {
			s := sers[r.IntN(len(sers))]
			s.ts += 1 + uint32(r.IntN(40))
			val += 0.25 + float64(r.IntN(7))
			evs = append(evs, DP{Metric: s.metric, Tags: s.tags, TS: s.ts, V: val}.Raw())
			names[s.metric] = true
		}
		inc.Ops = append(inc.Ops, plan.Op{Kind: "mput", Events: evs})
		if rd < rounds-1 || r.IntN(2) == 0 {
			if r.IntN(4) == 0 || (blockRot && rd == 1) {
				inc.Ops = append(inc.Ops, plan.Op{Kind: "advance", DurMs: 10_500}) // block-rotation timer too
			} else {
				inc.Ops = append(inc.Ops, plan.Op{Kind: "advance", DurMs: 1_100})
			}
		}
	}
	var ns []string
	for n := range names {
		ns = append(ns, n)
	}
	sort.Strings(ns)
	inc1 := plan.Incarnation{Boot: "full", SchedSeed: r.Uint64()>>11 | 1}
	for _, n := range ns {
		inc1.Ops = append(inc1.Ops, plan.Op{Kind: "mquery", Text: n, Start: mStart, End: mEnd, Step: 1})
	}
	inc1.Ops = append(inc1.Ops, plan.Op{Kind: "mnames", Start: mStart, End: mEnd})
	p.Incs = []plan.Incarnation{inc, inc1}
	return p
}

// walRecoveryOracle: statement of C10 observed end to end (crash, restart, recovery, selector queries).
func walRecoveryOracle(prop string, res *RunResult) []Violation {
	if _, isDamage := res.Plan.Params["intact"]; isDamage {
		return walDamageOracle(prop, res)
	}
	var vs []Violation
	if len(res.Incs) == 0 {
		return nil
	}
	ir0 := res.Incs[0]
	if ab := ir0.Abnormal(); ab != "" && ab != "harness" && ab != "wall-timeout" {
		vs = append(vs, Violation{Sig: prop + ":node-" + ab + "-before-crash:" + ir0.PanicSite(), Msg: trimTo(ir0.Stderr, 1500)})
	}
	m := newMetricsModel()
	completed := map[string]bool{} // series|ts of datapoints whose WAL append had completed
	completedNames := map[string]bool{}
	var unflushed, completedAll []DP
	tagsFlushed := map[string]bool{}
	for oi := range res.Plan.Incs[0].Ops {
		op := &res.Plan.Incs[0].Ops[oi]
		e := ir0.Get(fmt.Sprint(oi))
		if e == nil {
			if op.Kind == "mput" {
				// in flight at the crash: may or may not be there
				mm := newMetricsModel()
				mm.applyMput(op, nil)
				for _, d := range mm.Order {
					m.add(d)
				}
			}
			break
		}
		switch op.Kind {
		case "mput":
			mm := newMetricsModel()
			mm.applyMput(op, e)
			for _, d := range mm.Order {
				m.add(d)
				unflushed = append(unflushed, d)
			}
		case "advance":
			if op.DurMs >= 61_000 {
				for k := range m.Series {
					tagsFlushed[k] = true
				}
			}
			if op.DurMs >= 1_100 {
				for _, d := range unflushed {
					completedAll = append(completedAll, d)
				}
				unflushed = nil
			}
		}
	}
	for _, d := range completedAll {
		if tagsFlushed[d.Key()] {
			completed[fmt.Sprintf("%s|%d", d.Key(), d.TS)] = true
			completedNames[d.Metric] = true
		}
	}
	if len(res.Incs) < 2 {
		return dedupV(vs)
	}
	crashInfo := ""
	if ce := ir0.Get("crash"); ce != nil {
		crashInfo = string(ce.Data)
	}
	ir := res.Incs[len(res.Incs)-1]
	where0 := "after crash " + crashInfo
	if ab := ir.Abnormal(); ab != "" && ab != "harness" && ab != "wall-timeout" {
		site := ir.PanicSite()
		if ab == "hang" {
			site = ir.HangKind()
		}
		return append(vs, Violation{Sig: prop + ":recovery-" + ab + ":" + site, Msg: where0 + ": " + trimTo(ir.Stderr, 1500)})
	}
	if b := ir.Get("boot"); b == nil || b.Err != "" {
		msg := "no boot entry"
		if b != nil {
			msg = b.Err
		}
		return append(vs, Violation{Sig: prop + ":startup-failed", Msg: where0 + ": " + msg})
	}
	seenSeries := map[string]map[uint32]bool{}
	lastInc := len(res.Incs) - 1
	for oi := range res.Plan.Incs[lastInc].Ops {
		op := &res.Plan.Incs[lastInc].Ops[oi]
		e := ir.Get(fmt.Sprint(oi))
		if e == nil {
			break
		}
		where := fmt.Sprintf("%s: op %d %s %q", where0, oi, op.Kind, op.Text)
		switch op.Kind {
		case "mquery":
			if e.Err != "" {
				vs = append(vs, Violation{Sig: prop + ":query-error-after-recovery", Msg: where + ": " + e.Err})
				continue
			}
			q, err := decodeMQ(e)
			if err != nil {
				continue
			}
			for sid, pts := range q.Series {
				name, labels := parseSeriesID(sid)
				key := seriesKeyOf(name, labels)
				exp := m.Series[key]
				if exp == nil {
					// The tags tree is flushed one file per tag key; a crash between those files makes a
					// series come back with a subset of its tags. That is tags-tree durability, outside C10:
					// attribute the series by label subset (the datapoints are still checked bit by bit).
					type tv struct {
						t uint32
						b uint64
					}
					cand := map[tv]string{}
					for mk, mexp := range m.Series {
						mn, ml := parseSeriesID(mk)
						if mn != name || len(labels) >= len(ml) {
							continue
						}
						sub := true
						for k, v := range labels {
							if ml[k] != v {
								sub = false
							}
						}
						if sub {
							for _, d := range mexp {
								cand[tv{d.TS, f64bits(d.V)}] = mk
							}
						}
					}
					all := len(cand) > 0
					for _, pt := range pts {
						mk, ok := cand[tv{pt.T, bitsOf(pt)}]
						if !ok {
							all = false
							break
						}
						if seenSeries[mk] == nil {
							seenSeries[mk] = map[uint32]bool{}
						}
						seenSeries[mk][pt.T] = true
					}
					if all {
						continue // every point is a written datapoint of a series carrying these tags
					}
				}
				if exp == nil {
					vs = append(vs, Violation{Sig: prop + ":series-invented", Msg: fmt.Sprintf("%s: series %q was never written", where, sid)})
					continue
				}
				byTS := map[uint32]DP{}
				for _, d := range exp {
					byTS[d.TS] = d
				}
				got := map[uint32]bool{}
				for _, pt := range pts {
					d, ok := byTS[pt.T]
					if !ok {
						vs = append(vs, Violation{Sig: prop + ":datapoint-invented", Msg: fmt.Sprintf("%s: series %s has a point at t=%d (v=%s) that was never written", where, sid, pt.T, pt.V)})
						continue
					}
					if bitsOf(pt) != f64bits(d.V) {
						vs = append(vs, Violation{Sig: prop + ":datapoint-value-altered", Msg: fmt.Sprintf("%s: series %s t=%d wrote %v (%016x) read %s (%s)", where, sid, pt.T, d.V, f64bits(d.V), pt.V, pt.Bits)})
					}
					got[pt.T] = true
				}
				seenSeries[key] = got
				// per-series prefix
				holeAt := -1
				for i, d := range exp {
					if !got[d.TS] {
						if holeAt < 0 {
							holeAt = i
						}
					} else if holeAt >= 0 {
						vs = append(vs, Violation{Sig: prop + ":recovered-not-a-prefix", Msg: fmt.Sprintf("%s: series %s misses its %d-th datapoint but has a later one (t=%d)", where, sid, holeAt, d.TS)})
						break
					}
				}
			}
			// every datapoint of this metric whose append had completed is there
			lost := 0
			first := ""
			for key, exp := range m.Series {
				if !strings.HasPrefix(key, op.Text+"{") {
					continue
				}
				for _, d := range exp {
					if completed[fmt.Sprintf("%s|%d", key, d.TS)] && !seenSeries[key][d.TS] {
						lost++
						if first == "" {
							first = fmt.Sprintf("%s t=%d", key, d.TS)
						}
					}
				}
			}
			if lost > 0 {
				vs = append(vs, Violation{Sig: prop + ":appended-datapoint-lost", Msg: fmt.Sprintf("%s: %d datapoints whose WAL append had completed are not returned (first %s)", where, lost, first)})
			}
		case "mnames":
			var d struct {
				Names []string `json:"names"`
			}
			_ = json.Unmarshal(e.Data, &d)
			have := map[string]bool{}
			for _, n := range d.Names {
				have[n] = true
				known := false
				for _, dp := range m.Order {
					if dp.Metric == n {
						known = true
						break
					}
				}
				if !known {
					vs = append(vs, Violation{Sig: prop + ":metric-name-invented", Msg: fmt.Sprintf("%s: metric name %q was never written", where, n)})
				}
			}
			for n := range completedNames {
				if !have[n] {
					vs = append(vs, Violation{Sig: prop + ":appended-metric-name-lost", Msg: fmt.Sprintf("%s: metric name %q (append completed) is not listed; listed %v", where, n, d.Names)})
				}
			}
		}
	}
	return dedupV(vs)
}

func f64bits(v float64) uint64 { return mathFloat64bits(v) }

// walDamageOracle: the damaged file, read by the real iterator, yields a prefix of what the intact file held.
func walDamageOracle(prop string, res *RunResult) []Violation {
	var vs []Violation
	if len(res.Incs) < 2 {
		return nil
	}
	rb, _ := json.Marshal(res.Plan.Params["intact"])
	intact := map[string][]string{}
	_ = json.Unmarshal(rb, &intact)
	ir := res.Incs[1]
	dmg, _ := json.Marshal(res.Plan.Params["damage"])
	if ab := ir.Abnormal(); ab != "" && ab != "harness" && ab != "wall-timeout" {
		return []Violation{{Sig: prop + ":wal-reader-" + ab + ":" + ir.PanicSite(), Msg: fmt.Sprintf("damage %s: %s", dmg, trimTo(ir.Stderr, 1200))}}
	}
	for oi := range res.Plan.Incs[1].Ops {
		op := &res.Plan.Incs[1].Ops[oi]
		e := ir.Get(fmt.Sprint(oi))
		if e == nil || op.Kind != "walread" {
			continue
		}
		var d struct {
			Seq       []string `json:"seq"`
			OpenError string   `json:"open_error"`
			StopError string   `json:"stop_error"`
		}
		_ = json.Unmarshal(e.Data, &d)
		// whatever the file decodes into must have been appended: each datapoint at most as often as it was
		// written (values are unique per datapoint), each metric name a written name
		if kind, _ := op.Args["kind"].(string); kind == "dp" || kind == "" {
			avail := map[string]int{}
			for _, o := range res.Plan.Incs[0].Ops {
				for _, raw := range o.Events {
					if dp, err := parseDP(raw); err == nil {
						avail[fmt.Sprintf("%d|%016x", dp.TS, f64bits(dp.V))]++
					}
				}
			}
			for i, ent := range d.Seq {
				p := strings.Split(ent, "|")
				if len(p) < 2 {
					continue
				}
				k := p[0] + "|" + p[1]
				if avail[k] == 0 {
					vs = append(vs, Violation{Sig: prop + ":wal-yields-datapoint-not-appended", Msg: fmt.Sprintf("damage %s: %s entry %d = %s was never appended (or is replayed more often than appended)", dmg, op.Name, i, ent)})
					break
				}
				avail[k]--
			}
		} else if kind == "mname" {
			names := map[string]bool{}
			for _, o := range res.Plan.Incs[0].Ops {
				for _, raw := range o.Events {
					if dp, err := parseDP(raw); err == nil {
						names[dp.Metric] = true
					}
				}
			}
			for i, ent := range d.Seq {
				if !names[ent] {
					vs = append(vs, Violation{Sig: prop + ":wal-yields-name-not-appended", Msg: fmt.Sprintf("damage %s: %s entry %d = %q was never appended", dmg, op.Name, i, ent)})
					break
				}
			}
		}
		want, haveIntact := intact[op.Name]
		if !haveIntact {
			continue
		}
		if len(d.Seq) > len(want) {
			vs = append(vs, Violation{Sig: prop + ":damaged-wal-yields-more-than-appended", Msg: fmt.Sprintf("damage %s: %s yields %d entries, intact file had %d", dmg, op.Name, len(d.Seq), len(want))})
			continue
		}
		for i := range d.Seq {
			if d.Seq[i] != want[i] {
				vs = append(vs, Violation{Sig: prop + ":damaged-wal-decoded-into-unwritten-entry", Msg: fmt.Sprintf("damage %s: %s entry %d is %q, appended was %q", dmg, op.Name, i, d.Seq[i], want[i])})
				break
			}
		}
	}
	return dedupV(vs)
}

func listWalFiles(dir string) []string {
	var out []string
	_ = filepath.WalkDir(filepath.Join(dir, "d"), func(p string, d fs.DirEntry, err error) error {
		if err == nil && !d.IsDir() && strings.HasSuffix(p, ".wal") {
			rel, _ := filepath.Rel(dir, p)
			out = append(out, rel)
		}
		return nil
	})
	sort.Strings(out)
	return out
}

func walKind(rel string) string {
	switch {
	case strings.Contains(rel, "/mname/"):
		return "mname"
	case strings.Contains(rel, "/metaentry/"):
		return "mentry"
	}
	return "dp"
}

func init() {
	register(&Check{
		ID:    "C10",
		Level: "fault_enumeration",
		Rule: "three enumerations over seeded WAL histories (rounds of datapoints for 1-3 metrics / 1-9 series, each followed by the 1 s WAL flush timers; knobs force in-line appends, WAL file rotation and block rotation): (1) crash after every mutating fs call k of the first incarnation, then the shipped start-up (RecoverWALData / RecoverMNameWALData / RecoverMEntryWALData) and a selector query per metric plus the metric-name listing; (2) every truncation length and (3) every byte x {bit flip, 0x00, 0xFF} of every WAL file left by an uncrashed run, read back through the real WAL iterators. quick: stratified samples of each space; thorough: all points. distinct = (history, crash-state digest) or (history, file, damage); non-trivial = the crash landed after the first WAL append / the damage hit a non-empty file",
		Run:   runC10,
		Oracle: func(res *RunResult) []Violation { return walRecoveryOracle("C10", res) },
		Assumptions: []string{
			"append completion is attributed to the 1 s flush timers having fired (advance >= 1.1 s) after the ingest call returned",
			"values are unique per datapoint and timestamps strictly increase per series, so every returned point is attributable",
			"torn writes (a write persisting partially) are covered by the truncation enumeration of the final files, not by a separate crash mode",
		},
		Components: stdComponents,
	})
}

func runC10(c *Ctx) {
	nHist, perSpace := 3, 100
	if !c.Quick() {
		nHist, perSpace = 12, 1<<30
	}
	type base struct {
		p      *plan.Plan
		trace  []fsOp
		files  map[string]int64 // wal file -> size
		intact map[string][]string
		firstAppend int
	}
	bases := make([]*base, nHist)
	c.Parallel(nHist, 0, func(i int) {
		r := c.Rng(uint64(i) + 1)
		p := genWalHistory(r, i%3 == 1)
		p.Property = "C10"
		p.Seed = c.Seed*1_000_003 + uint64(i)
		b := &base{p: p, files: map[string]int64{}, intact: map[string][]string{}}
		res, err := RunPlan(p, func(dir string, next int) error {
			for _, f := range listWalFiles(dir) {
				if fi, err := os.Stat(filepath.Join(dir, f)); err == nil {
					b.files[f] = fi.Size()
				}
			}
			return nil
		})
		if err != nil {
			c.Harness(fmt.Sprintf("base %d: %v", i, err))
			return
		}
		defer res.Cleanup()
		if h := harnessTrouble(res); h != "" {
			c.Harness(fmt.Sprintf("base %d: %s", i, h))
			return
		}
		c.Account(res, fmt.Sprintf("h%d-nocrash", i), true, nil)
		c.Report(p, c.Check.Oracle(res))
		b.trace = fsTraceOf(res.Incs[0])
		for _, o := range b.trace {
			if strings.HasSuffix(o.Path, ".wal") && o.Op == "write" {
				b.firstAppend = o.N
				break
			}
		}
		// intact sequences of every WAL file: a second plan that reads them back without booting
		rp := p.Clone()
		rp.Incs[1] = plan.Incarnation{Boot: "none"}
		var fl []string
		for f := range b.files {
			fl = append(fl, f)
		}
		sort.Strings(fl)
		for _, f := range fl {
			rp.Incs[1].Ops = append(rp.Incs[1].Ops, plan.Op{Kind: "walread", Name: f, Args: map[string]any{"kind": walKind(f)}})
		}
		rp.Params["intact"] = map[string][]string{}
		rp.Note = fmt.Sprintf("history %d: WAL files of the uncrashed run read back through the real iterators", i)
		rres, err := RunPlan(rp, nil)
		if err != nil || len(rres.Incs) < 2 {
			c.Harness(fmt.Sprintf("base %d walread: %v", i, err))
			return
		}
		defer rres.Cleanup()
		c.Account(rres, fmt.Sprintf("h%d-walread", i), true, nil)
		c.Report(rp, c.Check.Oracle(rres))
		for oi, op := range rp.Incs[1].Ops {
			if e := rres.Incs[1].Get(fmt.Sprint(oi)); e != nil {
				var d struct {
					Seq []string `json:"seq"`
				}
				_ = json.Unmarshal(e.Data, &d)
				b.intact[op.Name] = d.Seq
			}
		}
		bases[i] = b
	})
	type job struct {
		p    *plan.Plan
		key  string
		nt   bool
		kind string
		sample any
	}
	var jobs []job
	exhaustive := true
	for i, b := range bases {
		if b == nil {
			exhaustive = false
			continue
		}
		r := c.Rng(uint64(500 + i))
		// (1) crash points
		M := len(b.trace)
		ks := make([]int, 0, M)
		for k := 1; k <= M; k++ {
			ks = append(ks, k)
		}
		if M > perSpace {
			exhaustive = false
			// prefer WAL / metrics files, keep some others
			var walKs, other []int
			for _, o := range b.trace {
				if strings.Contains(o.Path, "wal-ts") || strings.Contains(o.Path, "/ts/") || strings.Contains(o.Path, "metricsmeta") || strings.Contains(o.Path, "tags") {
					walKs = append(walKs, o.N)
				} else {
					other = append(other, o.N)
				}
			}
			r.Shuffle(len(walKs), func(a, b int) { walKs[a], walKs[b] = walKs[b], walKs[a] })
			r.Shuffle(len(other), func(a, b int) { other[a], other[b] = other[b], other[a] })
			ks = ks[:0]
			for len(ks) < perSpace*4/5 && len(walKs) > 0 {
				ks = append(ks, walKs[0])
				walKs = walKs[1:]
			}
			for len(ks) < perSpace && len(other) > 0 {
				ks = append(ks, other[0])
				other = other[1:]
			}
		}
		for _, k := range ks {
			p := b.p.Clone()
			p.Incs[0].Faults = []plan.Fault{{Kind: "crash_after", At: k}}
			o := b.trace[k-1]
			p.Note = fmt.Sprintf("history %d crash after fs call %d (%s %s)", i, k, o.Op, o.Path)
			jobs = append(jobs, job{p: p, key: fmt.Sprintf("h%d-crash", i), nt: k >= b.firstAppend && b.firstAppend > 0, kind: "crash@" + fileKindWal(o.Path) + "/" + o.Op,
				sample: map[string]any{"space": "crash", "history": i, "k": k, "call": o.Op + " " + o.Path}})
		}
		// (2) truncations and (3) corruptions
		var fl []string
		for f := range b.files {
			fl = append(fl, f)
		}
		sort.Strings(fl)
		var dmgs []Damage
		for _, f := range fl {
			sz := b.files[f]
			for n := int64(0); n < sz; n++ {
				dmgs = append(dmgs, Damage{BeforeInc: 1, File: f, Op: "trunc", At: n})
			}
			for n := int64(0); n < sz; n++ {
				dmgs = append(dmgs, Damage{BeforeInc: 1, File: f, Op: "flip", At: n, Val: 1 << uint(r.IntN(8))},
					Damage{BeforeInc: 1, File: f, Op: "set", At: n, Val: 0x00}, Damage{BeforeInc: 1, File: f, Op: "set", At: n, Val: 0xFF})
			}
		}
		if len(dmgs) > 2*perSpace {
			exhaustive = false
			r.Shuffle(len(dmgs), func(a, b int) { dmgs[a], dmgs[b] = dmgs[b], dmgs[a] })
			dmgs = dmgs[:2*perSpace]
		}
		for _, d := range dmgs {
			p := b.p.Clone()
			p.Params["damage"] = []Damage{d}
			p.Params["intact"] = map[string][]string{d.File: b.intact[d.File]}
			p.Incs[1] = plan.Incarnation{Boot: "none", Ops: []plan.Op{{Kind: "walread", Name: d.File, Args: map[string]any{"kind": walKind(d.File)}}}}
			p.Note = fmt.Sprintf("history %d damage %+v", i, d)
			jobs = append(jobs, job{p: p, key: fmt.Sprintf("h%d-%s-%s-%d-%d", i, d.File, d.Op, d.At, d.Val), nt: len(b.intact[d.File]) > 0, kind: "damage:" + d.Op + "@" + walKind(d.File),
				sample: map[string]any{"space": "damage", "history": i, "damage": d, "intact_entries": len(b.intact[d.File])}})
		}
	}
	done := 0
	nsamp := map[string]int{}
	c.Parallel(len(jobs), 0, func(j int) {
		jb := jobs[j]
		var digest string
		res, err := RunPlan(jb.p, func(dir string, next int) error {
			if next == 1 && jb.p.Params["damage"] == nil {
				digest = treeDigest(dir)
			}
			return genericBetween(dir, next)
		})
		if err != nil {
			c.Harness(fmt.Sprintf("job %d: %v", j, err))
			return
		}
		defer res.Cleanup()
		if h := harnessTrouble(res); h != "" {
			c.Harness(fmt.Sprintf("job %d: %s", j, h))
			return
		}
		vs := c.Check.Oracle(res)
		var sample any
		c.mu.Lock()
		sp := strings.SplitN(jb.kind, ":", 2)[0]
		if nsamp[sp] < 2 {
			nsamp[sp]++
			sample = jb.sample
		}
		done++
		c.mu.Unlock()
		key := jb.key
		if digest != "" {
			key += "-" + digest
			c.CrashState(key)
		}
		c.Account(res, key, jb.nt, sample)
		c.Probe(jb.kind, 1)
		if jb.p.Params["damage"] != nil {
			c.mu.Lock()
			c.faultCounts["file_damage"]++
			c.mu.Unlock()
		}
		c.Report(jb.p, vs)
	})
	ex := exhaustive && done == len(jobs) && !c.Stopped()
	c.exhaustive = &ex
	c.SetExtra("histories", nHist)
	c.SetExtra("points_planned", len(jobs))
	c.SetExtra("points_run", done)
}

func fileKindWal(p string) string {
	switch {
	case strings.Contains(p, "/mname/"):
		return "mname-wal"
	case strings.Contains(p, "/metaentry/"):
		return "metaentry-wal"
	case strings.HasSuffix(p, ".wal"):
		return "dp-wal"
	case strings.HasSuffix(p, ".tso") || strings.HasSuffix(p, ".tsg") || strings.HasSuffix(p, ".mbsu"):
		return "metrics-block"
	case strings.Contains(p, "metricsmeta"):
		return "metricsmeta"
	case strings.Contains(p, "tags") || strings.Contains(p, ".ttree"):
		return "tagstree"
	}
	return fileKind(p)
}
