package main

import (
	"encoding/json"
	"fmt"
	"math/rand/v2"
	"net/url"
	"sort"
	"strings"

	"simlens/plan"
)

// ---- C20 part B: saved objects as keyed stores ---------------------------------------------------------------
//
// One logical operation = one request to the real handler (world "crud" op, organisation explicit) or to the
// real HTTP route (lookup files). crudModel is the reference keyed store: the generator advances it with
// the expected outcome to produce mostly-valid histories; the oracle replays the plan against the journal,
// compares each answer with the model's expectation and applies an operation iff the node acknowledged it.

type cop map[string]any // logical operation descriptor (Args["c"])

func (c cop) s(k string) string {
	v, _ := c[k].(string)
	return v
}
func (c cop) b(k string) bool {
	v, _ := c[k].(bool)
	return v
}
func (c cop) i(k string) int {
	switch v := c[k].(type) {
	case float64:
		return int(v)
	case int:
		return v
	case int64:
		return int(v)
	}
	return 0
}
func (c cop) has(k string) bool { _, ok := c[k]; return ok }
func (c cop) strs(k string) []string {
	var out []string
	switch v := c[k].(type) {
	case []string:
		return v
	case []any:
		for _, x := range v {
			out = append(out, fmt.Sprint(x))
		}
	}
	return out
}

type dItem struct {
	typ, name, parent, desc, note string
	fav                           bool
}

type contactM struct {
	org      int64
	name     string
	emails   []string
	webhooks []string
}

type alertM struct {
	org                 int64
	name, contact, text string
	cond, window, intvl int
	value               float64
	message             string
	labels              map[string]string
}

type crudModel struct {
	dash     map[int64]map[string]*dItem // org -> sym -> item
	usq      map[int64]map[string]map[string]string
	contacts map[string]*contactM
	alerts   map[string]*alertM
	aliases  map[int64]map[string]map[string]bool // org -> index -> aliases
	lookups  map[string]string
	// every value written under each label name by any alert (to recognise the shared label row)
	lastLabel map[string]map[string]bool
}

func newCrudModel() *crudModel {
	return &crudModel{dash: map[int64]map[string]*dItem{}, usq: map[int64]map[string]map[string]string{}, contacts: map[string]*contactM{},
		alerts: map[string]*alertM{}, aliases: map[int64]map[string]map[string]bool{}, lookups: map[string]string{}, lastLabel: map[string]map[string]bool{}}
}

func (m *crudModel) d(org int64) map[string]*dItem {
	if m.dash[org] == nil {
		m.dash[org] = map[string]*dItem{}
	}
	return m.dash[org]
}

const rootSym = "root-folder"

func (m *crudModel) folderOK(org int64, sym string) bool {
	if sym == "" || sym == rootSym {
		return true
	}
	it := m.d(org)[sym]
	return it != nil && it.typ == "folder"
}

func normParent(p string) string {
	if p == "" {
		return rootSym
	}
	return p
}

func (m *crudModel) sibling(org int64, parent, typ, name, except string) bool {
	for s, it := range m.d(org) {
		if s != except && it.parent == parent && it.name == name && (typ == "" || it.typ == typ) {
			return true
		}
	}
	return false
}

func (m *crudModel) isDescendant(org int64, node, anc string) bool {
	for cur := node; cur != "" && cur != rootSym; {
		if cur == anc {
			return true
		}
		it := m.d(org)[cur]
		if it == nil {
			return false
		}
		cur = it.parent
	}
	return false
}

// expect: "ok" (must be acknowledged), "fail" (must be rejected), "any".
func (m *crudModel) expect(c cop) string {
	org := int64(c.i("org"))
	sym := c.s("sym")
	switch c.s("t") {
	case "folder.create":
		p := normParent(c.s("parent"))
		if c.s("name") == "" || !m.folderOK(org, p) || m.sibling(org, p, "folder", c.s("name"), "") {
			return "fail"
		}
		return "ok"
	case "dash.create":
		p := normParent(c.s("parent"))
		if c.s("name") == "" || !m.folderOK(org, p) || m.sibling(org, p, "dashboard", c.s("name"), "") {
			return "fail"
		}
		return "ok"
	case "dash.update":
		it := m.d(org)[sym]
		if it == nil || it.typ != "dashboard" {
			return "fail"
		}
		p := it.parent
		if c.s("parent") != "" {
			p = c.s("parent")
			if !m.folderOK(org, p) {
				return "fail"
			}
		}
		if m.sibling(org, p, "dashboard", c.s("name"), sym) {
			return "fail"
		}
		return "ok"
	case "dash.get", "dash.delete", "dash.favorite":
		it := m.d(org)[sym]
		if it == nil || it.typ != "dashboard" {
			if c.s("t") == "dash.get" && c.b("foreign") {
				return "any" // a read by another organisation disturbs nothing
			}
			return "fail"
		}
		return "ok"
	case "folder.update":
		it := m.d(org)[sym]
		if it == nil || it.typ != "folder" {
			return "fail"
		}
		p := it.parent
		if np := c.s("parent"); np != "" && np != it.parent {
			if !m.folderOK(org, np) || m.isDescendant(org, np, sym) {
				return "fail"
			}
			p = np
			if m.sibling(org, p, "", it.name, sym) && c.s("name") == "" {
				return "any" // a move next to an equally named item: not defined
			}
		}
		if n := c.s("name"); n != "" && n != it.name {
			if m.sibling(org, p, "folder", n, sym) {
				return "fail"
			}
			if m.sibling(org, p, "", n, sym) {
				return "any"
			}
		}
		return "ok"
	case "folder.delete", "folder.contents":
		if sym == rootSym {
			if c.s("t") == "folder.delete" {
				return "fail"
			}
			return "ok"
		}
		it := m.d(org)[sym]
		if it == nil || it.typ != "folder" {
			return "fail"
		}
		return "ok"
	case "dash.list", "usq.getall", "contact.list", "alert.list", "alias.all", "lookup.list":
		return "ok"
	case "usq.save":
		if c.s("name") == "" {
			return "fail"
		}
		return "ok"
	case "usq.get", "usq.delete":
		if _, ok := m.usq[org][c.s("name")]; ok {
			return "ok"
		}
		return "fail"
	case "contact.create":
		for _, x := range m.contacts {
			if x.name == c.s("name") {
				return "fail" // contact names are unique
			}
		}
		return "ok"
	case "contact.update":
		x := m.contacts[sym]
		if x == nil {
			return "fail"
		}
		for s, y := range m.contacts {
			if s != sym && y.name == c.s("name") {
				return "fail"
			}
		}
		return "ok"
	case "contact.delete":
		if m.contacts[sym] == nil {
			return "fail"
		}
		for _, a := range m.alerts {
			if a.contact == sym {
				return "any"
			}
		}
		return "ok"
	case "alert.create":
		for _, a := range m.alerts {
			if a.name == c.s("name") {
				return "fail"
			}
		}
		if m.contacts[c.s("contact")] == nil {
			return "fail"
		}
		return "ok"
	case "alert.update":
		a := m.alerts[sym]
		if a == nil {
			return "fail"
		}
		for s, b := range m.alerts {
			if s != sym && b.name == c.s("name") {
				return "fail"
			}
		}
		if m.contacts[c.s("contact")] == nil {
			if c.s("contact") == a.contact {
				return "any" // unchanged reference to a contact deleted meanwhile
			}
			return "fail"
		}
		return "ok"
	case "alert.get", "alert.delete":
		if m.alerts[sym] == nil {
			if c.s("t") == "alert.get" {
				return "any" // GetAlert answers an empty record for an unknown id
			}
			return "fail"
		}
		return "ok"
	case "vtable.add":
		return "ok"
	case "alias.add":
		return "ok"
	case "alias.remove":
		return "any"
	case "alias.resolve":
		for _, as := range m.aliases[org] {
			if as[c.s("name")] {
				return "ok"
			}
		}
		return "fail"
	case "lookup.upload":
		if _, ok := m.lookups[lookupStored(c.s("name"))]; ok && !c.b("overwrite") {
			return "fail"
		}
		return "ok"
	case "lookup.get", "lookup.delete":
		if _, ok := m.lookups[c.s("name")]; ok {
			return "ok"
		}
		return "fail"
	}
	return "any"
}

func lookupStored(name string) string {
	l := strings.ToLower(name)
	if strings.HasSuffix(l, ".csv") || strings.HasSuffix(l, ".csv.gz") {
		return name
	}
	return name + ".csv"
}

// apply an acknowledged operation.
func (m *crudModel) apply(c cop) {
	org := int64(c.i("org"))
	sym := c.s("sym")
	switch c.s("t") {
	case "folder.create":
		m.d(org)[sym] = &dItem{typ: "folder", name: c.s("name"), parent: normParent(c.s("parent"))}
	case "dash.create":
		m.d(org)[sym] = &dItem{typ: "dashboard", name: c.s("name"), parent: normParent(c.s("parent")), desc: c.s("desc")}
	case "dash.update":
		if it := m.d(org)[sym]; it != nil {
			it.name, it.desc, it.note, it.fav = c.s("name"), c.s("desc"), c.s("note"), c.b("fav")
			if p := c.s("parent"); p != "" {
				it.parent = p
			}
		}
	case "dash.favorite":
		if it := m.d(org)[sym]; it != nil {
			it.fav = !it.fav
		}
	case "dash.delete":
		delete(m.d(org), sym)
	case "folder.update":
		if it := m.d(org)[sym]; it != nil {
			if p := c.s("parent"); p != "" {
				it.parent = p
			}
			if n := c.s("name"); n != "" {
				it.name = n
			}
		}
	case "folder.delete":
		var del []string
		for s := range m.d(org) {
			if m.isDescendant(org, s, sym) {
				del = append(del, s)
			}
		}
		for _, s := range del {
			delete(m.d(org), s)
		}
	case "usq.save":
		if m.usq[org] == nil {
			m.usq[org] = map[string]map[string]string{}
		}
		f := map[string]string{}
		if fm, ok := c["fields"].(map[string]any); ok {
			for k, v := range fm {
				f[k] = fmt.Sprint(v)
			}
		} else if fm, ok := c["fields"].(map[string]string); ok {
			for k, v := range fm {
				f[k] = v
			}
		}
		m.usq[org][c.s("name")] = f
	case "usq.delete":
		delete(m.usq[org], c.s("name"))
	case "contact.create":
		m.contacts[sym] = &contactM{org: org, name: c.s("name"), emails: c.strs("emails"), webhooks: c.strs("webhooks")}
	case "contact.update":
		if x := m.contacts[sym]; x != nil {
			x.name, x.emails, x.webhooks = c.s("name"), c.strs("emails"), c.strs("webhooks")
		}
	case "contact.delete":
		delete(m.contacts, sym)
	case "alert.create", "alert.update":
		a := m.alerts[sym]
		if a == nil {
			a = &alertM{org: org}
			m.alerts[sym] = a
		}
		a.name, a.contact, a.text, a.cond, a.window, a.intvl, a.message = c.s("name"), c.s("contact"), c.s("text"), c.i("cond"), c.i("window"), c.i("interval"), c.s("message")
		a.value, _ = c["value"].(float64)
		if v, ok := c["value"].(int); ok {
			a.value = float64(v)
		}
		a.labels = map[string]string{}
		if lm, ok := c["labels"].(map[string]any); ok {
			for k, v := range lm {
				a.labels[k] = fmt.Sprint(v)
			}
		} else if lm, ok := c["labels"].(map[string]string); ok {
			for k, v := range lm {
				a.labels[k] = v
			}
		}
		for k, v := range a.labels {
			if m.lastLabel[k] == nil {
				m.lastLabel[k] = map[string]bool{}
			}
			m.lastLabel[k][v] = true
		}
	case "alert.delete":
		delete(m.alerts, sym)
	case "alias.add":
		if m.aliases[org] == nil {
			m.aliases[org] = map[string]map[string]bool{}
		}
		if m.aliases[org][c.s("index")] == nil {
			m.aliases[org][c.s("index")] = map[string]bool{}
		}
		m.aliases[org][c.s("index")][c.s("name")] = true
	case "alias.remove":
		delete(m.aliases[org][c.s("index")], c.s("name"))
	case "lookup.upload":
		m.lookups[lookupStored(c.s("name"))] = c.s("content")
	case "lookup.delete":
		delete(m.lookups, c.s("name"))
	}
}

// ---- plan encoding ------------------------------------------------------------------------------------------

func ref(sym string) string {
	if sym == "" || sym == rootSym {
		return sym
	}
	return "${" + sym + "}"
}

func jsonOf(v any) string {
	return jsonStr2(v)
}

func jsonStr2(v any) string {
	var sb strings.Builder
	enc := json.NewEncoder(&sb)
	enc.SetEscapeHTML(false)
	_ = enc.Encode(v)
	return strings.TrimSpace(sb.String())
}

const lookupBoundary = "----simlensBoundary7MA4YWxkTrZu0gW"

func crudPlanOp(c cop) plan.Op {
	org := int64(c.i("org"))
	t := c.s("t")
	args := map[string]any{"fn": t, "c": map[string]any(c)}
	op := plan.Op{Kind: "crud", Org: org, Args: args}
	sym := c.s("sym")
	switch t {
	case "folder.create":
		op.Body = jsonOf(map[string]any{"name": c.s("name"), "parentId": ref(c.s("parent"))})
		args["capture"] = sym
	case "dash.create":
		op.Body = jsonOf(map[string]any{"name": c.s("name"), "description": c.s("desc"), "parentId": ref(c.s("parent"))})
		args["capture"] = sym
	case "dash.update":
		det := map[string]any{"name": c.s("name"), "description": c.s("desc"), "note": c.s("note"), "isFavorite": c.b("fav"),
			"panels": []any{map[string]any{"panelId": "p1", "queryText": c.s("note")}}}
		if p := c.s("parent"); p != "" {
			det["folder"] = map[string]any{"id": ref(p)}
		}
		op.Body = jsonOf(map[string]any{"id": ref(sym), "details": det})
	case "dash.get", "dash.delete", "dash.favorite":
		args["uv"] = map[string]any{"dashboard-id": ref(sym)}
	case "dash.list":
		args["query"] = "type=all"
	case "folder.update":
		b := map[string]any{}
		if c.s("name") != "" {
			b["name"] = c.s("name")
		}
		if c.s("parent") != "" {
			b["parentId"] = ref(c.s("parent"))
		}
		op.Body = jsonOf(b)
		args["uv"] = map[string]any{"folder-id": ref(sym)}
	case "folder.delete", "folder.contents":
		args["uv"] = map[string]any{"folder-id": ref(sym)}
	case "usq.save":
		b := map[string]any{"queryName": c.s("name")}
		if fm, ok := c["fields"].(map[string]string); ok {
			for k, v := range fm {
				b[usqWire[k]] = v
			}
		}
		op.Body = jsonOf(b)
	case "usq.get", "usq.delete":
		// the router hands path parameters over percent-encoded, as a client sends them
		args["uv"] = map[string]any{"qname": url.PathEscape(c.s("name"))}
	case "contact.create", "contact.update":
		var wh []any
		for _, w := range c.strs("webhooks") {
			wh = append(wh, map[string]any{"webhook": w})
		}
		b := map[string]any{"contact_name": c.s("name"), "email": c.strs("emails"), "webhook": wh, "org_id": org}
		if t == "contact.update" {
			b["contact_id"] = ref(sym)
			b["org_id"] = c.i("owner")
		} else {
			args["capture"] = sym
			args["cap_name"] = c.s("name")
		}
		op.Body = jsonOf(b)
	case "contact.delete":
		op.Body = jsonOf(map[string]any{"contact_id": ref(sym)})
	case "alert.create", "alert.update":
		var labels []any
		if lm, ok := c["labels"].(map[string]string); ok {
			keys := make([]string, 0, len(lm))
			for k := range lm {
				keys = append(keys, k)
			}
			sort.Strings(keys)
			for _, k := range keys {
				labels = append(labels, map[string]any{"label_name": k, "label_value": lm[k]})
			}
		}
		b := map[string]any{"alert_name": c.s("name"), "alert_type": 1, "contact_id": ref(c.s("contact")), "contact_name": "",
			"queryParams": map[string]any{"data_source": "Logs", "queryLanguage": "Splunk QL", "queryText": c.s("text"), "startTime": "now-5m", "endTime": "now", "index": "crudidx", "queryMode": "Builder"},
			"condition": c.i("cond"), "value": c["value"], "eval_for": c.i("window"), "eval_interval": c.i("interval"), "message": c.s("message"), "labels": labels}
		if t == "alert.update" {
			b["alert_id"] = ref(sym)
		} else {
			args["capture"] = sym
			args["cap_name"] = c.s("name")
		}
		op.Body = jsonOf(b)
	case "alert.get":
		args["uv"] = map[string]any{"alertID": ref(sym)}
	case "alert.delete":
		op.Body = jsonOf(map[string]any{"alert_id": ref(sym)})
	case "alias.add", "alias.remove":
		op.Index, op.Name = c.s("index"), c.s("name")
	case "alias.resolve":
		op.Name = c.s("name")
	case "vtable.add":
		op.Index = c.s("index")
	case "lookup.upload":
		fields := map[string]string{"name": c.s("name")}
		if c.b("overwrite") {
			fields["overwrite"] = "true"
		}
		var sb strings.Builder
		for _, k := range []string{"name", "overwrite"} {
			if v, ok := fields[k]; ok {
				fmt.Fprintf(&sb, "--%s\r\nContent-Disposition: form-data; name=%q\r\n\r\n%s\r\n", lookupBoundary, k, v)
			}
		}
		fmt.Fprintf(&sb, "--%s\r\nContent-Disposition: form-data; name=\"file\"; filename=\"up.csv\"\r\nContent-Type: text/csv\r\n\r\n%s\r\n--%s--\r\n", lookupBoundary, c.s("content"), lookupBoundary)
		return plan.Op{Kind: "http", Body: sb.String(), Args: map[string]any{"server": "query", "method": "POST", "path": "/api/lookup-upload",
			"headers": map[string]any{"Content-Type": "multipart/form-data; boundary=" + lookupBoundary}, "c": map[string]any(c)}}
	case "lookup.get", "lookup.delete":
		meth := "GET"
		if t == "lookup.delete" {
			meth = "DELETE"
		}
		return plan.Op{Kind: "http", Args: map[string]any{"server": "query", "method": meth, "path": "/api/lookup-files/" + url.PathEscape(c.s("name")), "c": map[string]any(c)}}
	case "lookup.list":
		return plan.Op{Kind: "http", Args: map[string]any{"server": "query", "method": "GET", "path": "/api/lookup-files", "c": map[string]any(c)}}
	}
	return op
}

var usqWire = map[string]string{"description": "queryDescription", "searchText": "searchText", "indexName": "indexName", "queryLanguage": "queryLanguage", "filterTab": "filterTab"}

// ---- generator ------------------------------------------------------------------------------------------------

var oddNames = []string{"alpha", "Beta 2", "gamma-δ", "q.1", "x_y", "A&B", "100%", "naïve", "quote\"d", "semi;colon", "back\\slash", "sp  ace", "日本", "a/b"}

type crudGen struct {
	r      *rand.Rand
	m      *crudModel
	prefix string
	orgs   []int64
	n      int
	stores []string
	vt     map[string]bool
}

func (g *crudGen) name() string {
	return g.prefix + oddNames[g.r.IntN(len(oddNames))]
}

func (g *crudGen) newSym(kind string) string {
	g.n++
	return fmt.Sprintf("%s%s%d", g.prefix, kind, g.n)
}

func (g *crudGen) pickOrg() int64 { return g.orgs[g.r.IntN(len(g.orgs))] }

func (g *crudGen) pickDash(org int64, typ string, liveOnly bool) string {
	var c []string
	for s, it := range g.m.d(org) {
		if it.typ == typ && strings.HasPrefix(s, g.prefix) {
			c = append(c, s)
		}
	}
	sort.Strings(c)
	if len(c) == 0 || (!liveOnly && g.r.IntN(8) == 0) {
		return g.prefix + "ghost" + typ[:1]
	}
	return c[g.r.IntN(len(c))]
}

func pickKey[V any](r *rand.Rand, m map[string]V, prefix string) string {
	var c []string
	for s := range m {
		if strings.HasPrefix(s, prefix) {
			c = append(c, s)
		}
	}
	sort.Strings(c)
	if len(c) == 0 {
		return ""
	}
	return c[r.IntN(len(c))]
}

// next returns one logical operation (and advances the generator's belief with the expected outcome).
func (g *crudGen) next() cop {
	r := g.r
	store := g.stores[r.IntN(len(g.stores))]
	org := g.pickOrg()
	var c cop
	switch store {
	case "dash":
		switch k := r.IntN(20); {
		case k < 3:
			c = cop{"t": "folder.create", "sym": g.newSym("f"), "name": g.name(), "parent": g.parentFor(org)}
		case k < 7:
			c = cop{"t": "dash.create", "sym": g.newSym("d"), "name": g.name(), "desc": "desc " + fmt.Sprint(r.IntN(1000)), "parent": g.parentFor(org)}
		case k < 10:
			sym := g.pickDash(org, "dashboard", false)
			nm := g.name()
			if it := g.m.d(org)[sym]; it != nil && r.IntN(2) == 0 {
				nm = it.name
			}
			c = cop{"t": "dash.update", "sym": sym, "name": nm, "desc": "d" + fmt.Sprint(r.IntN(1000)), "note": "n" + fmt.Sprint(r.IntN(100000)), "fav": r.IntN(2) == 0}
			if r.IntN(3) == 0 {
				c["parent"] = g.parentFor(org)
				if c["parent"] == "" {
					c["parent"] = rootSym
				}
			}
		case k < 12:
			c = cop{"t": "dash.get", "sym": g.pickDash(org, "dashboard", false)}
		case k < 13:
			c = cop{"t": "dash.favorite", "sym": g.pickDash(org, "dashboard", false)}
		case k < 14:
			c = cop{"t": "dash.delete", "sym": g.pickDash(org, "dashboard", false)}
		case k < 16:
			c = cop{"t": "folder.update", "sym": g.pickDash(org, "folder", false)}
			if r.IntN(2) == 0 {
				c["name"] = g.name()
			}
			if r.IntN(2) == 0 || c["name"] == nil {
				p := g.parentFor(org)
				if p == "" {
					p = rootSym
				}
				c["parent"] = p
			}
		case k < 17:
			c = cop{"t": "folder.delete", "sym": g.pickDash(org, "folder", false)}
		case k < 18:
			s := g.pickDash(org, "folder", true)
			if r.IntN(2) == 0 || strings.Contains(s, "ghost") {
				s = rootSym
			}
			c = cop{"t": "folder.contents", "sym": s}
		case k < 19:
			c = cop{"t": "dash.list"}
		default:
			// another organisation addresses this organisation's dashboard or folder by id
			other := g.orgs[(indexOf(g.orgs, org)+1)%len(g.orgs)]
			if other == org {
				c = cop{"t": "dash.list"}
				break
			}
			typ := []string{"dash.favorite", "dash.delete", "dash.update", "folder.delete", "folder.update", "dash.get"}[r.IntN(6)]
			kind := "dashboard"
			if strings.HasPrefix(typ, "folder") {
				kind = "folder"
			}
			c = cop{"t": typ, "sym": g.pickDash(org, kind, true), "foreign": true, "name": g.name(), "desc": "x", "note": "foreign", "fav": true}
			org = other
		}
	case "usq":
		nm := g.name()
		if have := pickKey(r, g.m.usq[org], g.prefix); have != "" && r.IntN(3) > 0 {
			nm = have
		}
		switch k := r.IntN(10); {
		case k < 5:
			c = cop{"t": "usq.save", "name": nm, "fields": map[string]string{"description": "sd" + fmt.Sprint(r.IntN(1000)), "searchText": "level=" + fmt.Sprint(r.IntN(1000)) + " | stats count", "indexName": "ix*", "queryLanguage": "Splunk QL"}}
		case k < 7:
			c = cop{"t": "usq.get", "name": nm}
		case k < 9:
			c = cop{"t": "usq.delete", "name": nm}
		default:
			c = cop{"t": "usq.getall"}
		}
	case "contact":
		sym := pickKey(r, g.m.contacts, g.prefix)
		switch k := r.IntN(10); {
		case k < 4 || sym == "":
			c = cop{"t": "contact.create", "sym": g.newSym("c"), "name": g.name(), "emails": []string{fmt.Sprintf("u%d@example.test", r.IntN(100))}, "webhooks": []string{fmt.Sprintf("http://hook.test/%d", r.IntN(100))}}
		case k < 7:
			x := g.m.contacts[sym]
			nm := x.name
			if r.IntN(3) == 0 {
				nm = g.name()
			}
			c = cop{"t": "contact.update", "sym": sym, "name": nm, "owner": int(x.org), "emails": []string{fmt.Sprintf("v%d@example.test", r.IntN(100)), "second@example.test"}[:1+r.IntN(2)], "webhooks": []string{fmt.Sprintf("http://hook.test/u%d", r.IntN(100))}}
			org = x.org
		case k < 8:
			c = cop{"t": "contact.delete", "sym": sym}
			org = g.m.contacts[sym].org
		default:
			c = cop{"t": "contact.list"}
		}
	case "alert":
		sym := pickKey(r, g.m.alerts, g.prefix)
		contact := ""
		var corg int64
		// a contact of the chosen organisation
		var cs []string
		for s, x := range g.m.contacts {
			if x.org == org && strings.HasPrefix(s, g.prefix) {
				cs = append(cs, s)
			}
		}
		sort.Strings(cs)
		if len(cs) > 0 {
			contact = cs[r.IntN(len(cs))]
			corg = org
		}
		_ = corg
		mk := func(t, sym string) cop {
			iv := []int{30, 60, 120}[r.IntN(3)]
			return cop{"t": t, "sym": sym, "name": g.name(), "contact": contact, "text": fmt.Sprintf("code>%d | stats count", r.IntN(600)), "cond": r.IntN(5), "value": float64(r.IntN(50)),
				"window": iv * (1 + r.IntN(3)), "interval": iv, "message": "msg " + fmt.Sprint(r.IntN(1000)),
				"labels": map[string]string{[]string{"env", "team", "sev"}[r.IntN(3)]: fmt.Sprintf("v%d", r.IntN(1000))}}
		}
		switch k := r.IntN(10); {
		case contact == "":
			c = cop{"t": "contact.create", "sym": g.newSym("c"), "name": g.name(), "emails": []string{"a@example.test"}, "webhooks": []string{"http://hook.test/a"}}
		case k < 4 || sym == "":
			c = mk("alert.create", g.newSym("a"))
		case k < 6:
			a := g.m.alerts[sym]
			org = a.org
			c = mk("alert.update", sym)
			if r.IntN(2) == 0 {
				c["name"] = a.name
			}
			// keep a contact of the alert's organisation
			c["contact"] = a.contact
		case k < 7:
			c = cop{"t": "alert.get", "sym": sym}
			org = g.m.alerts[sym].org
		case k < 8:
			c = cop{"t": "alert.delete", "sym": sym}
			org = g.m.alerts[sym].org
		default:
			c = cop{"t": "alert.list"}
		}
	case "alias":
		ix := fmt.Sprintf("%six%d", strings.ToLower(g.prefix), r.IntN(3))
		key := fmt.Sprintf("%d/%s", org, ix)
		if !g.vt[key] {
			g.vt[key] = true
			c = cop{"t": "vtable.add", "index": ix}
			break
		}
		al := fmt.Sprintf("%sal%d", strings.ToLower(g.prefix), r.IntN(4))
		switch k := r.IntN(10); {
		case k < 5:
			c = cop{"t": "alias.add", "index": ix, "name": al}
		case k < 7:
			c = cop{"t": "alias.remove", "index": ix, "name": al}
		case k < 9:
			c = cop{"t": "alias.all"}
		default:
			c = cop{"t": "alias.resolve", "name": al}
		}
	case "lookup":
		nm := g.prefix + []string{"hosts.csv", "Users List.csv", "codes", "naïve.csv", "a&b.csv", "x%20y.csv", "UP.CSV"}[r.IntN(7)]
		if have := pickKey(r, g.m.lookups, g.prefix); have != "" && r.IntN(2) == 0 {
			nm = have
		}
		switch k := r.IntN(10); {
		case k < 5:
			c = cop{"t": "lookup.upload", "name": nm, "overwrite": r.IntN(2) == 0, "content": fmt.Sprintf("host,owner\nh%d,team%d\nh2,\"quoted, %d\"\n", r.IntN(100), r.IntN(100), r.IntN(100))}
		case k < 7:
			c = cop{"t": "lookup.get", "name": lookupStored(nm)}
		case k < 9:
			c = cop{"t": "lookup.delete", "name": lookupStored(nm)}
		default:
			c = cop{"t": "lookup.list"}
		}
		org = 0
	}
	c["org"] = int(org)
	if g.m.expect(c) != "fail" {
		g.m.apply(c)
	}
	return c
}

func indexOf(xs []int64, x int64) int {
	for i, v := range xs {
		if v == x {
			return i
		}
	}
	return 0
}

func (g *crudGen) parentFor(org int64) string {
	if g.r.IntN(3) == 0 {
		return ""
	}
	s := g.pickDash(org, "folder", false)
	return s
}

// sweep: read everything back.
func (g *crudGen) sweep(orgs []int64, stores []string) []cop {
	var out []cop
	has := func(s string) bool {
		for _, x := range stores {
			if x == s {
				return true
			}
		}
		return false
	}
	for _, org := range orgs {
		if has("dash") {
			out = append(out, cop{"t": "dash.list", "org": int(org)}, cop{"t": "folder.contents", "sym": rootSym, "org": int(org)})
			var syms []string
			for s := range g.m.d(org) {
				syms = append(syms, s)
			}
			sort.Strings(syms)
			for _, s := range syms {
				if g.m.d(org)[s].typ == "dashboard" {
					out = append(out, cop{"t": "dash.get", "sym": s, "org": int(org)})
				} else {
					out = append(out, cop{"t": "folder.contents", "sym": s, "org": int(org)})
				}
			}
		}
		if has("usq") {
			out = append(out, cop{"t": "usq.getall", "org": int(org)})
			var names []string
			for n := range g.m.usq[org] {
				names = append(names, n)
			}
			sort.Strings(names)
			for _, n := range names {
				out = append(out, cop{"t": "usq.get", "name": n, "org": int(org)})
			}
		}
		if has("contact") || has("alert") {
			out = append(out, cop{"t": "contact.list", "org": int(org)}, cop{"t": "alert.list", "org": int(org)})
		}
		if has("alias") {
			out = append(out, cop{"t": "alias.all", "org": int(org)})
		}
	}
	if has("alert") {
		var syms []string
		for s := range g.m.alerts {
			syms = append(syms, s)
		}
		sort.Strings(syms)
		for _, s := range syms {
			out = append(out, cop{"t": "alert.get", "sym": s, "org": int(g.m.alerts[s].org)})
		}
	}
	if has("lookup") {
		out = append(out, cop{"t": "lookup.list", "org": 0})
		var names []string
		for n := range g.m.lookups {
			names = append(names, n)
		}
		sort.Strings(names)
		for _, n := range names {
			out = append(out, cop{"t": "lookup.get", "name": n, "org": 0})
		}
	}
	return out
}

var allCrudStores = []string{"dash", "usq", "contact", "alert", "alias", "lookup"}

func genCrudPlan(r *rand.Rand, quick bool) *plan.Plan {
	k := plan.Knobs{Sched: true, Procs: []int{1, 2, 4}[r.IntN(3)]}
	k.PQS = &boolF
	concurrent := r.IntN(2) == 0
	if concurrent {
		k.PreemptPermille = []int{20, 100, 300}[r.IntN(3)]
		if r.IntN(2) == 0 {
			k.DelayPermille = []int{20, 60}[r.IntN(2)]
			k.DelayLen = []int{20, 200}[r.IntN(2)]
		}
	}
	p := &plan.Plan{Knobs: k, Params: map[string]any{"part": "crud"}}
	orgs := [][]int64{{0}, {0, 7}, {0, 7, 12}}[r.IntN(3)]
	p.Knobs.Orgs = append([]int64(nil), orgs...)
	// swarm: a subset of the stores per run
	var stores []string
	for _, s := range allCrudStores {
		if r.IntN(2) == 0 {
			stores = append(stores, s)
		}
	}
	if len(stores) == 0 {
		stores = []string{allCrudStores[r.IntN(len(allCrudStores))]}
	}
	m := newCrudModel()
	nOps := 15 + r.IntN(40)
	if !quick {
		nOps = 20 + r.IntN(100)
	}
	inc := plan.Incarnation{Boot: "full", SchedSeed: r.Uint64()>>11 | 1}
	main := &crudGen{r: r, m: m, prefix: "M", orgs: orgs, stores: stores, vt: map[string]bool{}}
	emit := func(c cop) { inc.Ops = append(inc.Ops, crudPlanOp(c)) }
	restarts := 0
	if r.IntN(2) == 0 {
		restarts = 1 + r.IntN(2)
	}
	restartAt := map[int]bool{}
	for i := 0; i < restarts; i++ {
		restartAt[1+r.IntN(nOps)] = true
	}
	parAt := -1
	if concurrent {
		parAt = r.IntN(nOps)
	}
	for i := 0; i < nOps; i++ {
		if i == parAt {
			// concurrent clients on disjoint objects (own symbol/name prefix), same model
			nc := 2 + r.IntN(3)
			var par [][]plan.Op
			// half of the time all clients work on one store of one organisation: they share its files
			cstores, corgs := stores, orgs
			if r.IntN(2) == 0 {
				cstores = []string{stores[r.IntN(len(stores))]}
				corgs = []int64{orgs[r.IntN(len(orgs))]}
			}
			for ci := 0; ci < nc; ci++ {
				cg := &crudGen{r: r, m: m, prefix: fmt.Sprintf("K%d", ci), orgs: corgs, stores: cstores, vt: map[string]bool{}}
				var ops []plan.Op
				for j := 0; j < 3+r.IntN(8); j++ {
					c := cg.next()
					if t := c.s("t"); t == "dash.list" || t == "usq.getall" || t == "contact.list" || t == "alert.list" || t == "alias.all" || t == "lookup.list" || (t == "folder.contents" && c.s("sym") == rootSym) {
						continue // shared listings are compared in the sweep only
					}
					c["client"] = ci
					ops = append(ops, crudPlanOp(c))
				}
				par = append(par, ops)
			}
			inc.Ops = append(inc.Ops, plan.Op{Kind: "par", Par: par})
		}
		emit(main.next())
		if restartAt[i] {
			if r.IntN(2) == 0 {
				inc.Ops = append(inc.Ops, plan.Op{Kind: "shutdown"}) // graceful; otherwise the process is killed
			}
			p.Incs = append(p.Incs, inc)
			inc = plan.Incarnation{Boot: "full", SchedSeed: r.Uint64()>>11 | 1}
			for _, c := range main.sweep(orgs, stores) {
				emit(c)
			}
		}
	}
	for _, c := range main.sweep(orgs, stores) {
		emit(c)
	}
	p.Incs = append(p.Incs, inc)
	p.Params["stores"] = stores
	p.Params["concurrent"] = concurrent
	return p
}
