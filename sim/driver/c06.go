package main

import (
	"encoding/json"
	"fmt"
	"math/rand/v2"
	"regexp"
	"sort"
	"strings"

	"simlens/plan"
)

// genChain builds a random command chain from the supported grammar over the 'layout' fields.
// ordered reports whether the output order is defined by the chain (so sequences can be compared).
func genChain(r *rand.Rand) (text string, ordered bool) {
	var cmds []string
	n := 1 + r.IntN(4)
	ordered = true // the base stream is newest-first and timestamps are unique in C06 datasets
	if r.IntN(12) == 0 {
		// sorting by a column an earlier command removed: legal, must not depend on the chunking (or crash)
		return []string{"* | fields vid, level | sort +lat, +vid", "* | top limit=2 host | sort +lat", "* | fields - msg | bin span=100 lat | top limit=2 host | sort +lat, +vid", "* | bin span=100 code | rare code | sort -lat", "* | fields - code | sort -code, +vid | head 5"}[r.IntN(5)], false
	}
	numField := func() string { return []string{"code", "lat"}[r.IntN(2)] }
	for i := 0; i < n; i++ {
		switch r.IntN(16) {
		case 0:
			cmds = append(cmds, []string{`where code>300`, `where lat<500`, `where level="error" OR code=404`, `where lat>100 AND lat<900`}[r.IntN(4)])
		case 1:
			cmds = append(cmds, []string{`eval x=code*2`, `eval y=if(lat>100, "hi", "lo")`, `eval z=lat+code`, `eval u=upper(level)`, `eval l=len(msg)`}[r.IntN(5)])
		case 2:
			cmds = append(cmds, []string{`fields vid, level, code`, `fields - msg`, `fields vid, lat, host`}[r.IntN(3)])
		case 3:
			cmds = append(cmds, `rename code AS status`)
			// later commands may still say "code": acceptable, the answer only has to be layout-independent
		case 4:
			// without a field list fillnull needs two passes over its input (rewind of the upstream commands)
			cmds = append(cmds, []string{`fillnull value=NA opt`, `fillnull value=NA`, `fillnull value=0 rc`}[r.IntN(3)])
		case 5:
			cmds = append(cmds, `rex field=msg "(?<w1>\w+)"`)
		case 6:
			cmds = append(cmds, []string{`regex msg="time.*"`, `regex level!="info"`}[r.IntN(2)])
		case 7:
			// incl. run-length forms: their state (the current run) must survive batch boundaries
			cmds = append(cmds, []string{`dedup level`, `dedup level, code`, `dedup host`, `dedup consecutive=true level`, `dedup 2 consecutive=true level`,
				`dedup consecutive=true code`, `dedup 2 level`, `dedup consecutive=true level, code`, `dedup 3 consecutive=true host`}[r.IntN(9)])
		case 8:
			cmds = append(cmds, fmt.Sprintf(`head %d`, 1+r.IntN(60)))
		case 9:
			cmds = append(cmds, fmt.Sprintf(`tail %d`, 1+r.IntN(60)))
		case 10:
			// a total order: the sort key is followed by the unique vid
			lim := ""
			if r.IntN(3) == 0 {
				lim = fmt.Sprintf("%d ", 1+r.IntN(40)) // sort with a limit
			}
			cmds = append(cmds, fmt.Sprintf(`sort %s%s%s, +vid`, lim, []string{"+", "-"}[r.IntN(2)], []string{"code", "lat", "level", "host"}[r.IntN(4)]))
		case 11:
			cmds = append(cmds, []string{`top level`, `rare code`, `top limit=2 host`, `top code by level`}[r.IntN(4)])
			ordered = false
			i = n // the row order of an aggregation is not defined: nothing order-dependent may follow
		case 12:
			cmds = append(cmds, fmt.Sprintf(`bin span=100 %s`, numField()))
		case 13:
			cmds = append(cmds, []string{`streamstats count AS c`, `streamstats count AS c by level`, `streamstats sum(code) AS s`}[r.IntN(3)])
		case 14:
			cmds = append(cmds, `makemv delim=" " msg | mvexpand msg`)
			ordered = false // rows of one event are no longer distinguished by vid: their mutual order is not defined
			i = n
		default:
			cmds = append(cmds, []string{`stats count by level`, `stats count, sum(code), max(lat) by host`, `stats count`, `stats avg(lat) by level, code`}[r.IntN(4)])
			ordered = false
			i = n
		}
	}
	return "* | " + strings.Join(cmds, " | "), ordered
}

func genChunkWorldSet(r *rand.Rand, quick bool) *plan.Plan {
	nEv := 40 + r.IntN(160)
	if !quick {
		nEv = 100 + r.IntN(900)
	}
	g := NewEvGen(r, "layout", "P", []int{2, 5, 20}[r.IntN(3)])
	var evs []json.RawMessage
	// unique timestamps: the base order (newest first) is then fully defined
	perm := r.Perm(nEv)
	for i := 0; i < nEv; i++ {
		evs = append(evs, g.Next(simEpochMs+int64(perm[i])*1000+int64(r.IntN(900))).Raw)
	}
	var qs []plan.Op
	nq := 6 + r.IntN(8)
	for i := 0; i < nq; i++ {
		text, ordered := genChain(r)
		qs = append(qs, plan.Op{Kind: "query", Index: "lay", Text: text, Start: qStart, End: qEnd, Size: 5 * nEv, Args: map[string]any{"includeNulls": true, "ordered": ordered}})
	}
	K := 4
	var worlds []*plan.Plan
	for w := 0; w < K; w++ {
		k := plan.Knobs{Sched: true, PQS: &boolF, Aggs: &boolF}
		k.Procs = []int{1, 2, 4, 16}[w%4]
		if r.IntN(2) == 0 {
			k.PreemptPermille = []int{0, 20, 100}[r.IntN(3)] // interleaving of the parallel chains
		}
		k.MaxSegFileSize = []uint64{0, 1, 15_000}[r.IntN(3)]
		wp := &plan.Plan{Property: "C06", Knobs: k, Params: map[string]any{}}
		inc := plan.Incarnation{Boot: "full", SchedSeed: r.Uint64()>>11 | 1}
		pos := 0
		for pos < len(evs) {
			n := 1 + r.IntN(len(evs)/(1+w)+1)
			if w == 0 {
				n = len(evs)
			}
			if pos+n > len(evs) {
				n = len(evs) - pos
			}
			inc.Ops = append(inc.Ops, plan.Op{Kind: "ingest", Index: "lay", Events: evs[pos : pos+n]})
			pos += n
			if r.IntN(3) > 0 {
				inc.Ops = append(inc.Ops, plan.Op{Kind: []string{"flush", "flush", "rotate"}[r.IntN(3)]})
			}
		}
		inc.Ops = append(inc.Ops, plan.Op{Kind: "flush"})
		inc.Ops = append(inc.Ops, qs...)
		wp.Incs = append(wp.Incs, inc)
		worlds = append(worlds, wp)
	}
	return &plan.Plan{Property: "C06", Knobs: plan.Knobs{Sched: true}, Params: map[string]any{"worlds": worlds, "n_events": nEv}}
}

func canonRecord(rec map[string]interface{}) string {
	ks := make([]string, 0, len(rec))
	for k, v := range rec {
		if v == nil {
			continue
		}
		ks = append(ks, k)
	}
	sort.Strings(ks)
	var sb strings.Builder
	for _, k := range ks {
		v := rec[k]
		if n, ok := v.(json.Number); ok {
			if f, err := n.Float64(); err == nil {
				fmt.Fprintf(&sb, "%s=%v;", k, f)
				continue
			}
		}
		fmt.Fprintf(&sb, "%s=%v;", k, v)
	}
	return sb.String()
}

func chunkOracle(prop string, res *RunResult) []Violation {
	var vs []Violation
	worlds := worldsOf(res.Plan)
	if len(res.Sub) != len(worlds) || len(worlds) < 2 {
		return nil
	}
	type ans struct {
		err     string
		errText string
		recs    []string
		groups  map[string]map[string]float64
		isAgg   bool
	}
	var texts []string
	var ordered []bool
	answers := map[int][]*ans{}
	for w, sub := range res.Sub {
		for ii, ir := range sub.Incs {
			if ab := ir.Abnormal(); ab != "" && ab != "harness" && ab != "wall-timeout" {
				site := ir.PanicSite()
				if ab == "hang" {
					site = ir.HangKind()
				}
				vs = append(vs, Violation{Sig: prop + ":node-" + ab + ":" + site, Msg: fmt.Sprintf("world %d inc %d (%s): %s", w, ii, describeWorld(worlds[w]), trimTo(ir.Stderr, 1500))})
			}
		}
		if len(sub.Incs) == 0 {
			continue
		}
		ir := sub.Incs[len(sub.Incs)-1]
		ops := sub.Plan.Incs[len(sub.Plan.Incs)-1].Ops
		qi := 0
		for oi := range ops {
			if ops[oi].Kind != "query" {
				continue
			}
			if w == 0 {
				texts = append(texts, ops[oi].Text)
				o, _ := ops[oi].Args["ordered"].(bool)
				ordered = append(ordered, o)
			}
			a := &ans{}
			e := ir.Get(fmt.Sprint(oi))
			switch {
			case e == nil:
				a.err = "no answer"
			case e.Err != "":
				a.err = "error" // error texts carry query ids; only the fact is compared
				a.errText = e.Err
			default:
				if q, err := decodeQ(e); err == nil {
					if len(q.Measure) > 0 || len(q.MeasureFuncs) > 0 {
						a.isAgg = true
						_, _, a.groups, _ = canonAnswer(q)
					} else {
						for _, rec := range q.Records {
							a.recs = append(a.recs, canonRecord(rec))
						}
					}
				}
			}
			answers[qi] = append(answers[qi], a)
			qi++
		}
	}
	for qi, row := range answers {
		if len(row) != len(res.Sub) || qi >= len(texts) {
			continue
		}
		ref := row[0]
		cls := chainClass(texts[qi])
		rowSuffix := preRenameFieldsSuffix(texts[qi])

		for w := 1; w < len(row); w++ {
			a := row[w]
			desc := fmt.Sprintf("world 0 (%s) vs world %d (%s)", describeWorld(worlds[0]), w, describeWorld(worlds[w]))
			if (a.err != "") != (ref.err != "") {
				vs = append(vs, Violation{Sig: prop + ":" + cls + ":fails-in-one-chunking" + errKind(ref.errText+a.errText), Msg: fmt.Sprintf("%q: %s: %q vs %q: %s", texts[qi], desc, ref.err, a.err, trimTo(ref.errText+a.errText, 400))})
				continue
			}
			if a.err != "" {
				continue
			}
			if a.isAgg != ref.isAgg {
				vs = append(vs, Violation{Sig: prop + ":" + cls + ":answer-shape-differs", Msg: fmt.Sprintf("%q: %s", texts[qi], desc)})
				continue
			}
			if a.isAgg {
				same := len(a.groups) == len(ref.groups)
				detail := ""
				for gk, rm := range ref.groups {
					am, ok := a.groups[gk]
					if !ok {
						same = false
						detail = fmt.Sprintf("group %q missing", strings.Split(gk, "\x00"))
						break
					}
					for mk, rv := range rm {
						if av, ok := am[mk]; !ok || !closeEnough(av, rv) {
							same = false
							detail = fmt.Sprintf("group %q %s: %v vs %v", strings.Split(gk, "\x00"), mk, rv, av)
						}
					}
				}
				if !same {
					vs = append(vs, Violation{Sig: prop + ":" + cls + ":aggregate-differs", Msg: fmt.Sprintf("%q: %s: %s (%d vs %d groups)", texts[qi], desc, detail, len(ref.groups), len(a.groups))})
				}
				continue
			}
			x, y := append([]string(nil), ref.recs...), append([]string(nil), a.recs...)
			if !ordered[qi] {
				sort.Strings(x)
				sort.Strings(y)
			}
			if len(x) != len(y) {
				vs = append(vs, Violation{Sig: prop + ":" + cls + ":row-count-differs" + rowSuffix, Msg: fmt.Sprintf("%q: %s: %d vs %d rows", texts[qi], desc, len(x), len(y))})
				continue
			}
			for i := range x {
				if x[i] != y[i] {
					kind := "rows-differ"
					sx, sy := append([]string(nil), x...), append([]string(nil), y...)
					sort.Strings(sx)
					sort.Strings(sy)
					if strings.Join(sx, "|") == strings.Join(sy, "|") {
						kind = "row-order-differs"
					}
					vs = append(vs, Violation{Sig: prop + ":" + cls + ":" + kind + rowSuffix, Msg: fmt.Sprintf("%q: %s: row %d: %s vs %s", texts[qi], desc, i, trimTo(x[i], 200), trimTo(y[i], 200))})
					break
				}
			}
		}
	}
	return dedupV(vs)
}

var preRenameRe = regexp.MustCompile(`rename (\w+) AS \w+`)

// preRenameFieldsSuffix marks chains in which a `fields` include list names a column by the name it had before an
// earlier `rename` (`rename code AS status | fields vid, level, code`): the recorded finding of that shape.
func preRenameFieldsSuffix(text string) string {
	parts := strings.Split(text, "|")
	for i, part := range parts {
		m := preRenameRe.FindStringSubmatch(part)
		if m == nil {
			continue
		}
		for _, later := range parts[i+1:] {
			f := strings.Fields(strings.TrimSpace(later))
			if len(f) < 2 || f[0] != "fields" || f[1] == "-" {
				continue
			}
			for _, name := range strings.FieldsFunc(strings.Join(f[1:], " "), func(r rune) bool { return r == ',' || r == ' ' }) {
				if name == m[1] {
					return ":fields-lists-pre-rename-name"
				}
			}
		}
	}
	return ""
}

// chainClass names the commands of a chain (sorted, unique) so that findings are per command mix.
func chainClass(text string) string {
	seen := map[string]bool{}
	var names []string
	for _, part := range strings.Split(text, "|")[1:] {
		f := strings.Fields(strings.TrimSpace(part))
		if len(f) == 0 {
			continue
		}
		if !seen[f[0]] {
			seen[f[0]] = true
			names = append(names, f[0])
		}
	}
	sort.Strings(names)
	return strings.Join(names, "+")
}

func init() {
	register(&Check{
		ID:    "C06",
		Level: "exploration",
		Rule:  "each case is a world set: one dataset with unique timestamps and 6-13 random command chains (1-4 commands from where, eval, fields, rename, fillnull, rex, regex, dedup, head, tail, sort, top/rare, bin, streamstats, makemv+mvexpand, stats) answered in 4 worlds that differ only in what changes the stream's chunking and merging: one block vs many blocks vs several segments, GOMAXPROCS 1/2/4/16 (number of parallel chains) and the seeded interleaving of the chain goroutines. Answers (row sequences where the order is defined, row multisets or group maps otherwise) must be equal across worlds. distinct = distinct world-set descriptions + chain texts; non-trivial = the worlds differ in block count or parallelism",
		Exec:  runWorlds,
		Run: func(c *Ctx) {
			n := 50
			if !c.Quick() {
				n = 2000
			}
			c.Explore(n, func(r *rand.Rand, i int) *plan.Plan { return genChunkWorldSet(r, c.Quick()) }, func(res *RunResult) (string, bool, any) {
				var ds, qs []string
				ws := worldsOf(res.Plan)
				for _, w := range ws {
					ds = append(ds, describeWorld(w))
				}
				if len(ws) > 0 {
					for _, op := range ws[0].Incs[0].Ops {
						if op.Kind == "query" {
							qs = append(qs, op.Text)
						}
					}
				}
				return strings.Join(ds, " || ") + strings.Join(qs, ";"), true, map[string]any{"worlds": ds, "chains": qs, "events": res.Plan.Params["n_events"]}
			})
		},
		Oracle: func(res *RunResult) []Violation { return chunkOracle("C06", res) },
		Assumptions: []string{
			"absolute per-command semantics (against the Splunk documentation) is a pure input property and is not claimed; equality across chunkings, parallel merges and interleavings is",
			"timestamps are unique, so the newest-first base order is fully defined; sort keys are completed by the unique vid",
		},
		Components: stdComponents,
	})
}

// errKind names the failure by a marker of its message (part of the signature, so that one recorded
// failure class does not hide another one of the same command mix).
func errKind(text string) string {
	for _, m := range []string{"mergeEncodings: same encoding used", "index out of range", "nil pointer", "timed out"} {
		if strings.Contains(text, m) {
			return ":" + strings.ReplaceAll(strings.ReplaceAll(m, " ", "-"), ":", "")
		}
	}
	return ""
}
