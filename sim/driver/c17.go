package main

import (
	"encoding/json"
	"fmt"
	"math/rand/v2"
	"sort"
	"strings"

	"simlens/plan"
)

var lifecycleTexts = []string{
	`*`, `level=error`, `* | stats count by level`, `* | stats avg(lat), max(code) by host`, `* | sort -lat | head 5`,
	`* | timechart span=10m count`, `code>=500 | stats count`, `* | dedup level | fields level, code`,
	// malformed / unsupported texts: must be rejected, not crash
	`* | stats`, `level=`, `* | sort`, `((`, `* | eval x=`, `* | head -1`, `* | where`, `|||`, `* | stats count by`, `search index=`,
}

// genLifecycle: a primed dataset, then concurrent query clients (sync path), a canceller, a monitor polling the
// admission counters, small MAX_RUNNING_QUERIES, a short query time-out and stall faults so that time-outs
// fire while waiting, searching and merging.
func genLifecycle(r *rand.Rand, quick bool) *plan.Plan {
	k := plan.Knobs{Sched: true, Procs: []int{1, 2, 4}[r.IntN(3)]}
	k.MaxRunning = []int{1, 2, 3, 5}[r.IntN(4)]
	k.QueryTimeoutSec = []int{1, 2, 5, 300}[r.IntN(4)]
	k.PreemptPermille = []int{0, 10, 50, 150}[r.IntN(4)]
	if r.IntN(2) == 0 {
		k.DelayPermille = []int{10, 40}[r.IntN(2)]
		k.DelayLen = []int{100, 600}[r.IntN(2)]
	}
	if r.IntN(3) == 0 {
		// one history in three holds tasks back at every lock of the admission code (query-table and
		// waiting-queue locks in querystatus.go): whatever else is runnable at that instant - a client starting a
		// query, the canceller, a time-out - gets in between two steps of PullQueriesToRun / StartQuery
		k.DelaySites = []string{"L:pkg/segment/query/querystatus.go", "W:pkg/segment/query/querystatus.go", "R:pkg/segment/query/querystatus.go"}
		if k.DelayLen == 0 {
			k.DelayLen = []int{30, 200}[r.IntN(2)]
		}
	}
	k.PQS = &boolF
	p := &plan.Plan{Knobs: k, Params: map[string]any{}}
	inc := plan.Incarnation{Boot: "full", SchedSeed: r.Uint64()>>11 | 1}
	g := NewEvGen(r, "layout", "Q", 5)
	for b := 0; b < 2+r.IntN(3); b++ {
		var evs []json.RawMessage
		for i := 0; i < 20+r.IntN(80); i++ {
			evs = append(evs, g.Next(simEpochMs+int64(r.IntN(3_600_000))).Raw)
		}
		inc.Ops = append(inc.Ops, plan.Op{Kind: "ingest", Index: "lay", Events: evs}, plan.Op{Kind: []string{"flush", "rotate"}[r.IntN(2)]})
	}
	manySegments := r.IntN(2) == 0
	// one history in four is the "client stalls, query times out" family: many segments, a short time-out and
	// a websocket client that reads at most one message
	stallFamily := r.IntN(4) == 0
	if stallFamily {
		manySegments = true
		p.Knobs.QueryTimeoutSec = []int{1, 2}[r.IntN(2)]
	}
	if manySegments {
		// a dozen small rotated segments: an asynchronous query then reports more progress updates than the
		// buffer of its state channel holds
		for b := 0; b < 12+r.IntN(5); b++ {
			var evs []json.RawMessage
			for i := 0; i < 2+r.IntN(3); i++ {
				evs = append(evs, g.Next(simEpochMs+int64(r.IntN(3_600_000))).Raw)
			}
			inc.Ops = append(inc.Ops, plan.Op{Kind: "ingest", Index: "lay", Events: evs}, plan.Op{Kind: "rotate"})
		}
	}
	inc.Ops = append(inc.Ops, plan.Op{Kind: "qstats"}) // baseline
	qid := 1_000_000
	var qids []int
	var clients [][]plan.Op
	nClients := 2 + r.IntN(6)
	for c := 0; c < nClients; c++ {
		var ops []plan.Op
		for q := 0; q < 1+r.IntN(4); q++ {
			qid++
			qids = append(qids, qid)
			text := lifecycleTexts[r.IntN(len(lifecycleTexts))]
			ops = append(ops, plan.Op{Kind: "query", Index: "lay", Text: text, Start: qStart, End: qEnd, Size: 500, Args: map[string]any{"qid": qid}})
			if r.IntN(3) == 0 {
				// think times; 10/20/30 ms are multiples of the admission poll period: the client then starts
				// its next query at the very instant PullQueriesToRun looks at the waiting queue
				ops = append(ops, plan.Op{Kind: "advance", DurMs: int64([]int{1, 10, 20, 30, 15, 300, 1200}[r.IntN(7)])})
			}
		}
		clients = append(clients, ops)
	}
	// canceller
	if r.IntN(3) > 0 {
		var ops []plan.Op
		for i := 0; i < 1+r.IntN(5); i++ {
			ops = append(ops, plan.Op{Kind: "advance", DurMs: int64([]int{0, 1, 5, 12, 40, 500}[r.IntN(6)])})
			ops = append(ops, plan.Op{Kind: "cancel", Args: map[string]any{"qid": qids[r.IntN(len(qids))]}})
		}
		clients = append(clients, ops)
	}
	// stall faults: hold the search goroutines back while the clock runs
	if r.IntN(2) == 0 {
		var ops []plan.Op
		for i := 0; i < 1+r.IntN(3); i++ {
			ops = append(ops, plan.Op{Kind: "advance", DurMs: int64([]int{0, 3, 11, 30}[r.IntN(4)])})
			ops = append(ops, plan.Op{Kind: "stall", DurMs: int64([]int{500, 2500, 7000}[r.IntN(3)]), Args: map[string]any{"prefix": []string{"pkg/ast/pipesearch/searchHandler.go", "pkg/segment/query", "pkg/segment/search", "pkg/segment/query/querystatus.go"}[r.IntN(4)]}})
		}
		clients = append(clients, ops)
	}
	// asynchronous searches over the websocket route: clients that read everything, and clients that stop
	// reading after a few messages and keep the connection open beyond the query time-out (the server's
	// listener then blocks on the socket and the query's state channel fills up)
	nws := r.IntN(3)
	if stallFamily && nws == 0 {
		nws = 1
	}
	for w := 0; w < nws; w++ {
		read := []int{-1, -1, 0, 1, 2, 3}[r.IntN(6)]
		if stallFamily && w == 0 {
			read = r.IntN(2)
		}
		ops := []plan.Op{{Kind: "advance", DurMs: int64(r.IntN(30))},
			{Kind: "ws_query", Index: "lay", Text: []string{"*", "level=error", "* | stats count by level"}[r.IntN(3)], Start: qStart, End: qEnd, Size: 500,
				Args: map[string]any{"read": read, "hold_ms": 1000 * (2 + r.IntN(9))}}}
		clients = append(clients, ops)
	}
	// admission-limit watcher (one history in three): reads the running count at every scheduling opportunity
	// while the clients are busy
	if r.IntN(3) == 0 {
		clients = append(clients, []plan.Op{{Kind: "qwatch", Args: map[string]any{"iters": float64(10 + r.IntN(40)), "rounds": float64(60 + r.IntN(300))}}})
	}
	// monitor
	{
		var ops []plan.Op
		for i := 0; i < 6+r.IntN(10); i++ {
			ops = append(ops, plan.Op{Kind: "qstats"}, plan.Op{Kind: "advance", DurMs: int64([]int{0, 1, 7, 20, 150}[r.IntN(5)])})
		}
		clients = append(clients, ops)
	}
	inc.Ops = append(inc.Ops, plan.Op{Kind: "par", Par: clients})
	// quiescence, then the leak check and a liveness probe (other queries still complete)
	// early probe: 300 ms after the last client returned every goroutine of every query must be gone (judged only
	// in histories without stall faults and without websocket clients that stop reading, see the oracle)
	inc.Ops = append(inc.Ops, plan.Op{Kind: "advance", DurMs: 300}, plan.Op{Kind: "qstats", Args: map[string]any{"early": true}})
	inc.Ops = append(inc.Ops, plan.Op{Kind: "advance", DurMs: 20_000}, plan.Op{Kind: "qstats"},
		plan.Op{Kind: "query", Index: "lay", Text: "* | stats count", Start: qStart, End: qEnd}, plan.Op{Kind: "advance", DurMs: 2_000}, plan.Op{Kind: "qstats"})
	p.Incs = []plan.Incarnation{inc}
	return p
}

type qstat struct {
	Active  int            `json:"active"`
	Waiting int            `json:"waiting"`
	Max     int            `json:"max"`
	Tasks   map[string]int `json:"tasks"`
}

func lifecycleOracle(prop string, res *RunResult) []Violation {
	var vs []Violation
	if len(res.Incs) == 0 {
		return nil
	}
	ir := res.Incs[0]
	switch ab := ir.Abnormal(); ab {
	case "":
	case "harness", "wall-timeout":
		return nil
	case "deadlock":
		d := ""
		if e := ir.Get("deadlock"); e != nil {
			d = e.Err
		}
		return []Violation{{Sig: prop + ":deadlock:" + deadlockSig(d), Msg: trimTo(d, 3000)}}
	case "hang":
		d := ""
		if e := ir.Get("hang"); e != nil {
			d = e.Err
		}
		return []Violation{{Sig: prop + ":hang:" + ir.HangKind() + ":" + hangWaiters(d) + allSlotsStalled(res.Plan), Msg: trimTo(d, 4000)}}
	default:
		return []Violation{{Sig: prop + ":node-" + ab + ":" + ir.PanicSite(), Msg: trimTo(ir.Stderr, 2500)}}
	}
	timeoutMs := int64(res.Plan.Knobs.QueryTimeoutSec) * 1000
	var baseline, early, final *qstat
	var stalls []struct{ at, dur int64 }
	cancelAt := map[int]int64{}
	type qrun struct {
		qid      int
		inv, ret int64
		err      string
		text     string
		id       string
	}
	var runs []qrun
	var wsRuns []struct{ inv, ret int64 }
	ops := res.Plan.Incs[0].Ops
	parIdx := -1
	for oi := range ops {
		if ops[oi].Kind == "par" {
			parIdx = oi
		}
	}
	for oi := range ops {
		op := &ops[oi]
		e := ir.Get(fmt.Sprint(oi))
		if op.Kind == "qstats" && e != nil {
			var s qstat
			_ = json.Unmarshal(e.Data, &s)
			if oi < parIdx || parIdx < 0 {
				baseline = &s
			} else if op.Args["early"] == true {
				early = &s
			} else {
				final = &s
			}
		}
		if op.Kind == "par" {
			for ci, cl := range op.Par {
				for qi, o := range cl {
					if o.Kind != "qwatch" {
						continue
					}
					if we := ir.Get(fmt.Sprintf("%d.%d.%d", oi, ci, qi)); we != nil && we.Phase != "invoke" {
						var w struct {
							MaxActive int   `json:"max_active"`
							At        int64 `json:"at_ms"`
							Max       int   `json:"max"`
						}
						_ = json.Unmarshal(we.Data, &w)
						if w.Max > 0 && w.MaxActive > w.Max {
							vs = append(vs, Violation{Sig: prop + ":admission-limit-exceeded", Msg: fmt.Sprintf("watcher: %d running queries with MAX_RUNNING_QUERIES=%d at %d", w.MaxActive, w.Max, w.At)})
						}
					}
				}
			}
		}
		if op.Kind == "query" && oi > parIdx && parIdx >= 0 {
			if e == nil || e.Err != "" {
				msg := "no answer"
				if e != nil {
					msg = e.Err
				}
				vs = append(vs, Violation{Sig: prop + ":later-query-does-not-complete", Msg: msg})
			}
		}
		if op.Kind != "par" {
			continue
		}
		for c := range op.Par {
			for i := range op.Par[c] {
				o := &op.Par[c][i]
				id := fmt.Sprintf("%d.%d.%d", oi, c, i)
				inv, ret := ir.Invoke(id), ir.Get(id)
				switch o.Kind {
				case "qstats":
					if ret != nil {
						var s qstat
						_ = json.Unmarshal(ret.Data, &s)
						if s.Max > 0 && s.Active > s.Max {
							vs = append(vs, Violation{Sig: prop + ":admission-limit-exceeded", Msg: fmt.Sprintf("%s: %d running queries with MAX_RUNNING_QUERIES=%d", id, s.Active, s.Max)})
						}
						if s.Waiting > 500 {
							vs = append(vs, Violation{Sig: prop + ":waiting-limit-exceeded", Msg: fmt.Sprintf("%s: %d waiting", id, s.Waiting)})
						}
					}
				case "cancel":
					if ret != nil {
						cancelAt[paramInt(o.Args["qid"], 0)] = ret.SimMs
					}
				case "stall":
					if ret != nil {
						stalls = append(stalls, struct{ at, dur int64 }{ret.SimMs, o.DurMs})
					}
				case "ws_query":
					if inv != nil {
						w := struct{ inv, ret int64 }{inv.SimMs, 1 << 62}
						if ret != nil {
							w.ret = ret.SimMs
						}
						wsRuns = append(wsRuns, w)
					}
				case "query":
					if inv == nil {
						continue
					}
					qr := qrun{qid: paramInt(o.Args["qid"], 0), inv: inv.SimMs, ret: -1, text: o.Text, id: id}
					if ret != nil {
						qr.ret = ret.SimMs
						qr.err = ret.Err
					}
					runs = append(runs, qr)
				}
			}
		}
	}
	// every query the clients issued got exactly one answer (the par op returned, so each client finished)
	var faultsEnd int64
	for _, s := range stalls {
		if s.at+s.dur > faultsEnd {
			faultsEnd = s.at + s.dur
		}
	}
	for _, q := range runs {
		if q.ret < 0 {
			vs = append(vs, Violation{Sig: prop + ":query-never-answered", Msg: fmt.Sprintf("%s %q", q.id, q.text)})
			continue
		}
		// promptness: bounded simulated time once faults stopped. Waiting time in the admission queue counts.
		limit := int64(60_000)
		if timeoutMs > 0 && timeoutMs < 60_000 {
			limit = timeoutMs*int64(len(runs)+2) + 20_000 // each admitted query may hold a slot up to its time-out
		}
		start := q.inv
		if faultsEnd > start {
			start = faultsEnd
		}
		if q.ret-start > limit {
			vs = append(vs, Violation{Sig: prop + ":query-answered-too-late", Msg: fmt.Sprintf("%s %q: invoked at %d, answered at %d (faults ended %d, limit %d ms)", q.id, q.text, q.inv, q.ret, faultsEnd, limit)})
		}
		// no blocking by other queries: a query that found a free admission slot, outside every stall window,
		// is not held up by whatever another query (e.g. one whose websocket client stopped reading) is going
		// through. Compute time costs no simulated time; only the 10 ms admission poll does. Not judged when
		// site delays are on (they let simulated time pass while a task is held back).
		if res.Plan.Knobs.DelayPermille == 0 && len(res.Plan.Knobs.DelaySites) == 0 && q.err == "" {
			const window = 3000
			inflight := 0
			for _, o := range runs {
				if o.id != q.id && o.inv <= q.inv && (o.ret < 0 || o.ret > q.inv) {
					inflight++
				}
			}
			for _, w := range wsRuns {
				if w.inv <= q.inv && w.ret > q.inv {
					inflight++
				}
			}
			stalled := false
			for _, st := range stalls {
				if st.at <= q.inv+window && st.at+st.dur >= q.inv {
					stalled = true
				}
			}
			if mr := int64(res.Plan.Knobs.MaxRunning); !stalled && (mr == 0 || int64(inflight) < mr) && q.ret-q.inv > window {
				vs = append(vs, Violation{Sig: prop + ":query-blocked-although-a-slot-was-free", Msg: fmt.Sprintf("%s %q: invoked at %d with %d queries in flight (MAX_RUNNING_QUERIES=%d), no stall fault active, answered only at %d", q.id, q.text, q.inv, inflight, mr, q.ret)})
			}
		}
		if ca, ok := cancelAt[q.qid]; ok && ca >= q.inv && ca <= q.ret {
			if q.ret-maxI64(ca, faultsEnd) > 15_000 {
				vs = append(vs, Violation{Sig: prop + ":cancel-not-prompt" + allSlotsStalled(res.Plan), Msg: fmt.Sprintf("%s %q: cancelled at %d, returned at %d", q.id, q.text, ca, q.ret)})
			}
		}
	}
	if early != nil && baseline != nil && !hasStallOrWS(res.Plan) {
		// no fault holds anything back in this history: 300 ms after the last answer nothing of any query may be
		// left (a cancelled query's time-out goroutine waiting for its timer is the classic leftover)
		var leaked []string
		for name, n := range early.Tasks {
			if strings.HasPrefix(name, "client") || name == "main" || strings.HasPrefix(name, "adopted#") {
				continue
			}
			if n > baseline.Tasks[name] {
				leaked = append(leaked, fmt.Sprintf("%s x%d", name, n-baseline.Tasks[name]))
			}
		}
		sort.Strings(leaked)
		if len(leaked) > 0 {
			sites := make([]string, len(leaked))
			for i, l := range leaked {
				sites[i] = strings.Fields(l)[0]
			}
			vs = append(vs, Violation{Sig: prop + ":goroutines-left-after-the-last-answer:" + strings.Join(sites, ","), Msg: strings.Join(leaked, "; ")})
		}
	}
	if final != nil {
		if final.Active != 0 {
			vs = append(vs, Violation{Sig: prop + ":running-table-not-empty-after-quiescence" + stalledWS(res.Plan), Msg: fmt.Sprintf("%d entries left in the running-queries table", final.Active)})
		}
		if final.Waiting != 0 {
			vs = append(vs, Violation{Sig: prop + ":waiting-queue-not-empty-after-quiescence", Msg: fmt.Sprintf("%d entries left in the waiting queue", final.Waiting)})
		}
		if baseline != nil {
			var leaked []string
			for name, n := range final.Tasks {
				if strings.HasPrefix(name, "client") || name == "main" {
					continue
				}
				if strings.HasPrefix(name, "adopted#") {
					continue // idle goroutines of the HTTP server's worker pool: not goroutines of a query
				}
				if n > baseline.Tasks[name] {
					leaked = append(leaked, fmt.Sprintf("%s x%d", name, n-baseline.Tasks[name]))
				}
			}
			sort.Strings(leaked)
			if len(leaked) > 0 {
				sites := make([]string, len(leaked))
				for i, l := range leaked {
					sites[i] = strings.Fields(l)[0]
				}
				vs = append(vs, Violation{Sig: prop + ":goroutines-left-after-quiescence" + stalledWS(res.Plan) + ":" + strings.Join(sites, ","), Msg: strings.Join(leaked, "; ")})
			}
		}
	} else if planHasFinalQstats(ops, parIdx) {
		// only where the plan asks for the final table read (a shrunk plan may have lost it)
		vs = append(vs, Violation{Sig: prop + ":workload-did-not-finish" + allSlotsStalled(res.Plan), Msg: "no final qstats entry"})
	}
	return dedupV(vs)
}

func maxI64(a, b int64) int64 {
	if a > b {
		return a
	}
	return b
}

// hangWaiters: the sorted set of sites at which tasks were waiting when a hang was declared.
func hangWaiters(dump string) string {
	seen := map[string]bool{}
	for _, l := range strings.Split(dump, "\n") {
		if i := strings.Index(l, "site="); i >= 0 && strings.Contains(l, "client") {
			s := strings.Fields(l[i+5:])
			if len(s) > 0 {
				seen[s[0]] = true
			}
		}
	}
	var out []string
	for k := range seen {
		out = append(out, k)
	}
	sort.Strings(out)
	return strings.Join(out, ",")
}

func init() {
	register(&Check{
		ID:    "C17",
		Level: "exploration",
		Rule: "each case is one seeded schedule of a query-lifecycle workload: 2-7 client tasks issue 1-4 queries each (legal and malformed texts) on the synchronous path against a primed dataset, a canceller cancels seeded query ids at seeded instants, a stall fault holds search goroutines back while the fake clock runs (so the 1/2/5 s query time-out fires while waiting, searching and merging), a monitor polls the running/waiting tables; MAX_RUNNING_QUERIES 1-5; pre-emption 0-15% and per-run site delays. Oracle: admission limits at every poll, every query answered once and within a bounded simulated time after faults stop, cancel promptness, empty tables and no extra live tasks after quiescence (exact goroutine-leak detection), later queries still complete, no deadlock/hang/panic. One history in ten is memory-starved (3 kB - 200 kB budget, so the limiter refuses search memory): every query ends in an error or the complete answer. distinct = interleaving fingerprints; non-trivial = more queries than admission slots, or a cancel/stall was injected",
		Run: func(c *Ctx) {
			n := 200
			if !c.Quick() {
				n = 15000
			}
			c.Explore(n, func(r *rand.Rand, i int) *plan.Plan {
				if i%10 == 9 {
					return genStarved(r)
				}
				return genLifecycle(r, c.Quick())
			}, func(res *RunResult) (string, bool, any) {
				fp := fingerprintOf(res)
				if res.Plan.Params["starved"] == true {
					c.Probe("memory_starved_histories", 1)
					for _, e := range res.Incs[0].Entries {
						if e.Kind == "query" && e.Err != "" {
							c.Probe("starved_query_rejected", 1)
						}
					}
					c.mu.Lock()
					c.faultCounts["memory_budget"]++
					c.mu.Unlock()
					return fp, true, map[string]any{"mem_bytes": res.Plan.Knobs.MemBytes, "fingerprint": fp}
				}
				nq, nc, ns := 0, 0, 0
				for _, op := range res.Plan.Incs[0].Ops {
					for _, cl := range op.Par {
						for _, o := range cl {
							switch o.Kind {
							case "query":
								nq++
							case "cancel":
								nc++
							case "stall":
								ns++
							}
						}
					}
				}
				c.Probe("queries", nq)
				c.Probe("cancels", nc)
				c.Probe("stalls", ns)
				for _, e := range res.Incs[0].Entries {
					if e.Kind == "query" && e.Phase == "return" && strings.Contains(e.Err, "timed out") {
						c.Probe("query_timed_out", 1)
					}
				}
				c.mu.Lock()
				c.faultCounts["stall"] += ns
				c.faultCounts["cancel"] += nc
				c.mu.Unlock()
				k := res.Plan.Knobs
				return fp, nq > k.MaxRunning || nc > 0 || ns > 0, map[string]any{"queries": nq, "cancels": nc, "stalls": ns, "knobs": k, "fingerprint": fp}
			})
		},
		Oracle: func(res *RunResult) []Violation {
			if res.Plan.Params["starved"] == true {
				return starvedOracle("C17", res)
			}
			return lifecycleOracle("C17", res)
		},
		Assumptions: []string{
			"both the synchronous path (ParseAndExecutePipeRequest) and the websocket route (over an in-memory synchronous pipe) are driven",
			"memory-starved histories: the limiter's refusal is provoked through memoryLimits.maxMemoryAllowedToUseInBytes; the Go allocator itself never fails",
			"'for all byte strings' parser totality is a pure input property: only a pool of malformed texts is sampled",
			"promptness is stated as bounded simulated time after the last stall fault ended, never while faults still flow",
		},
		Components: stdComponents,
	})
}

func hasStallOrWS(p *plan.Plan) bool {
	for _, inc := range p.Incs {
		for _, op := range inc.Ops {
			for _, cl := range op.Par {
				for _, o := range cl {
					if o.Kind == "stall" || (o.Kind == "ws_query" && paramInt(o.Args["read"], -1) >= 0) {
						return true // a stall fault, or a websocket client that stops reading
					}
				}
			}
		}
	}
	return false
}

func planHasFinalQstats(ops []plan.Op, parIdx int) bool {
	for oi := range ops {
		if ops[oi].Kind == "qstats" && parIdx >= 0 && oi > parIdx && ops[oi].Args["early"] != true {
			return true
		}
	}
	return false
}

// allSlotsStalled marks histories in which at least MAX_RUNNING_QUERIES websocket clients stop reading: by the recorded
// finding each of their queries keeps its admission slot, so every slot can be held for good and whatever waits
// for admission (or for a lock the blocked sender holds) waits with it. Histories with fewer stalled clients than
// slots keep the unsuffixed signatures.
func allSlotsStalled(p *plan.Plan) string {
	n := 0
	for _, inc := range p.Incs {
		for _, op := range inc.Ops {
			for _, cl := range op.Par {
				for _, o := range cl {
					if o.Kind == "ws_query" && paramInt(o.Args["read"], -1) >= 0 {
						n++
					}
				}
			}
		}
	}
	if p.Knobs.MaxRunning > 0 && n >= p.Knobs.MaxRunning {
		return ":all-slots-held-by-stalled-websocket-clients"
	}
	return ""
}

// stalledWS marks histories in which a websocket client stopped reading (so that the class "left behind after a
// client stalled and went away" is told apart from leaks of ordinary queries).
func stalledWS(p *plan.Plan) string {
	for _, inc := range p.Incs {
		for _, op := range inc.Ops {
			for _, cl := range op.Par {
				for _, o := range cl {
					if o.Kind == "ws_query" && paramInt(o.Args["read"], -1) >= 0 {
						return ":with-stalled-websocket-client"
					}
				}
			}
		}
	}
	return ""
}
