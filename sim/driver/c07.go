package main

import (
	"crypto/sha256"
	"encoding/json"
	"fmt"
	"io/fs"
	"math/rand/v2"
	"os"
	"path/filepath"
	"sort"
	"strings"

	"simlens/plan"
)

// treeDigest hashes (relative path, size, content hash) of every file under dir/d.
func treeDigest(dir string) string {
	h := sha256.New()
	root := filepath.Join(dir, "d")
	var files []string
	_ = filepath.WalkDir(root, func(p string, d fs.DirEntry, err error) error {
		if err == nil && !d.IsDir() {
			files = append(files, p)
		}
		return nil
	})
	sort.Strings(files)
	for _, f := range files {
		rel, _ := filepath.Rel(root, f)
		if strings.HasSuffix(rel, ".db") || strings.Contains(rel, ".db-") {
			continue // sqlite internals vary with page allocation; not part of the log store
		}
		b, err := os.ReadFile(f)
		if err != nil {
			continue
		}
		fmt.Fprintf(h, "%s|%d|%x\n", rel, len(b), sha256.Sum256(b))
	}
	return fmt.Sprintf("%x", h.Sum(nil))[:24]
}

// genCrashHistory: incarnation 0 = ingest history with flushes/rotations; incarnation 1 = recovery:
// queries, further ingest + flush, queries again.
// genIDLenHistory: one index whose events carry a unique string id that grows by one character somewhere in
// the history ("r-9999" -> "r-10000"), in batches large enough (more than 500 distinct values) for the column
// to be stored raw instead of dictionary-encoded: the per-column value length recorded in the segment's running
// metadata has to follow such a change, and after a crash that metadata is all the recovery has.
func genIDLenHistory(r *rand.Rand) *plan.Plan {
	p := &plan.Plan{Knobs: swarmKnobs(r), Params: map[string]any{"fs_trace": true}}
	inc := plan.Incarnation{Boot: "full", SchedSeed: r.Uint64()>>11 | 1}
	first := 520 + r.IntN(130)
	n := 10_000 - first - r.IntN(120) // the id length changes in the second batch
	var all []string
	nb := 2 + r.IntN(3)
	for b := 0; b < nb; b++ {
		ne := 520 + r.IntN(130)
		if b == 0 {
			ne = first
		}
		var evs []json.RawMessage
		for j := 0; j < ne; j++ {
			rid := fmt.Sprintf("r-%d", n)
			all = append(all, rid)
			evs = append(evs, json.RawMessage(fmt.Sprintf(`{"vid":%q,"timestamp":%d,"rid":%q,"level":%q,"n":%d}`, "L"+rid, simEpochMs+int64(r.IntN(3_600_000)), rid, []string{"info", "warn", "error"}[r.IntN(3)], n)))
			n++
		}
		inc.Ops = append(inc.Ops, plan.Op{Kind: "ingest", Index: "ixidlen", Events: evs})
		if b < nb-1 || r.IntN(2) == 0 {
			inc.Ops = append(inc.Ops, plan.Op{Kind: "flush"})
		}
	}
	p.Incs = append(p.Incs, inc)
	inc1 := plan.Incarnation{Boot: "full", SchedSeed: r.Uint64()>>11 | 1}
	inc1.Ops = append(inc1.Ops, matchAll("ixidlen", len(all)+100), countQuery("ixidlen"))
	for i := 0; i < 10; i++ {
		rid := all[r.IntN(len(all))]
		if i < 4 {
			rid = all[len(all)-1-r.IntN(first)] // the later blocks
		}
		inc1.Ops = append(inc1.Ops, plan.Op{Kind: "query", Index: "ixidlen", Text: fmt.Sprintf(`rid=%q`, rid), Start: qStart, End: qEnd, Size: 50,
			Args: map[string]any{"includeNulls": true, "find": "L" + rid}})
	}
	p.Incs = append(p.Incs, inc1)
	return p
}

func genCrashHistory(r *rand.Rand, quick bool) *plan.Plan {
	if r.IntN(5) == 0 {
		return genIDLenHistory(r)
	}
	o := histOpts{families: []string{"flat", "nested", "mixed", "sparse", "card"}, maxIdx: 2, minBatches: 3, maxBatches: 8, maxEvents: 30, restarts: false, finalOnly: true,
		queries: func(ix string, n int) []plan.Op { return nil }}
	p := genHistory(r, o)
	p.Params["fs_trace"] = true
	// the history ends with a pending (unflushed) batch half of the time
	inc0 := &p.Incs[0]
	// drop trailing flush + (no queries were added because finalOnly and queries() returns nil)
	if r.IntN(2) == 0 && len(inc0.Ops) > 1 {
		inc0.Ops = inc0.Ops[:len(inc0.Ops)-1]
	}
	// no timer ops in the crash history (flush completion must be attributable to an explicit op)
	var ops []plan.Op
	for _, op := range inc0.Ops {
		if op.Kind == "advance" {
			op = plan.Op{Kind: "flush"}
		}
		ops = append(ops, op)
	}
	inc0.Ops = ops
	idxs := map[string]int{}
	for _, op := range inc0.Ops {
		if op.Kind == "ingest" {
			idxs[op.Index] += len(op.Events)
		}
	}
	var names []string
	for k := range idxs {
		names = append(names, k)
	}
	sort.Strings(names)
	inc1 := plan.Incarnation{Boot: "full", SchedSeed: r.Uint64()>>11 | 1}
	for _, ix := range names {
		inc1.Ops = append(inc1.Ops, matchAll(ix, idxs[ix]+100), countQuery(ix))
	}
	// later ingestion must not overwrite recovered data
	for _, ix := range names {
		g := NewEvGen(r, "flat", "post-"+ix+"-", 5)
		var evs []json.RawMessage
		for j := 0; j < 3+r.IntN(5); j++ {
			evs = append(evs, g.Next(simEpochMs+int64(r.IntN(1000_000))).Raw)
		}
		inc1.Ops = append(inc1.Ops, plan.Op{Kind: "ingest", Index: ix, Events: evs})
	}
	inc1.Ops = append(inc1.Ops, plan.Op{Kind: "flush"})
	for _, ix := range names {
		inc1.Ops = append(inc1.Ops, matchAll(ix, idxs[ix]+100), countQuery(ix))
	}
	p.Incs = append(p.Incs, inc1)
	return p
}

func countQuery(ix string) plan.Op {
	return plan.Op{Kind: "query", Index: ix, Text: "* | stats count", Start: qStart, End: qEnd}
}

// crashOracle implements the statement of C07 over a two-(or three-)incarnation run.
func crashOracle(prop string, res *RunResult) []Violation {
	var vs []Violation
	if len(res.Incs) == 0 {
		return nil
	}
	m := newLogModel()
	pending := map[string][]*Event{} // acked or in-flight but not covered by a completed flush
	maybe := map[string]bool{}       // vids of events whose ingest call had not returned
	// --- incarnation 0: what was acknowledged, what was flushed
	ir0 := res.Incs[0]
	if ab := ir0.Abnormal(); ab != "" && ab != "harness" && ab != "wall-timeout" {
		vs = append(vs, Violation{Sig: prop + ":node-" + ab + "-before-crash:" + ir0.PanicSite(), Msg: trimTo(ir0.Stderr, 1500)})
	}
	crashInfo := ""
	if ce := ir0.Get("crash"); ce != nil {
		crashInfo = string(ce.Data)
	}
	for oi := range res.Plan.Incs[0].Ops {
		op := &res.Plan.Incs[0].Ops[oi]
		e := ir0.Get(fmt.Sprint(oi))
		if e == nil {
			// not returned: the op in progress at the crash, and everything after it never started
			if op.Kind == "ingest" {
				for _, raw := range op.Events {
					if ev, err := parseEvent(raw); err == nil {
						m.ByVID[ev.VID] = ev
						maybe[ev.VID] = true
					}
				}
			}
			break
		}
		switch op.Kind {
		case "ingest":
			m.applyIngest(op, e)
		case "flush", "rotate", "shutdown":
			m.markFlushed()
		}
	}
	for ix, evs := range m.ByIndex {
		pending[ix] = evs[m.Flushed[ix]:]
	}
	if len(res.Incs) < 2 {
		return dedupV(vs)
	}
	// --- recovery incarnations
	for ii := 1; ii < len(res.Incs); ii++ {
		ir := res.Incs[ii]
		last := ii == len(res.Incs)-1
		where0 := fmt.Sprintf("after crash %s: inc %d", crashInfo, ii)
		if ab := ir.Abnormal(); ab != "" && ab != "harness" && ab != "wall-timeout" {
			site := ir.PanicSite()
			if ab == "hang" {
				site = ir.HangKind()
			}
			vs = append(vs, Violation{Sig: prop + ":recovery-" + ab + ":" + site, Msg: where0 + ": " + trimTo(ir.Stderr, 1500)})
			continue
		}
		if ir.Exit == 77 && !last {
			continue // crashed again during recovery by plan: judged in the next incarnation
		}
		b := ir.Get("boot")
		if b == nil {
			if ir.Exit == 77 {
				continue
			}
			vs = append(vs, Violation{Sig: prop + ":startup-did-not-complete", Msg: where0 + ": no boot entry; stderr: " + trimTo(ir.Stderr, 800)})
			continue
		}
		if b.Err != "" {
			vs = append(vs, Violation{Sig: prop + ":startup-failed", Msg: where0 + ": " + b.Err})
			continue
		}
		visible := map[string]map[string]bool{} // index -> vids seen by the first match-all
		postModel := map[string][]*Event{}
		flushedPost := false
		for oi := range res.Plan.Incs[ii].Ops {
			op := &res.Plan.Incs[ii].Ops[oi]
			e := ir.Get(fmt.Sprint(oi))
			if e == nil {
				break
			}
			where := fmt.Sprintf("%s op %d", where0, oi)
			switch op.Kind {
			case "ingest":
				mm := newLogModel()
				mm.applyIngest(op, e)
				for _, ev := range mm.ByIndex[op.Index] {
					m.ByVID[ev.VID] = ev
					postModel[op.Index] = append(postModel[op.Index], ev)
				}
			case "flush":
				flushedPost = true
			case "query":
				if e.Err != "" {
					vs = append(vs, Violation{Sig: prop + ":query-error-after-recovery", Msg: where + ": " + op.Text + ": " + e.Err})
					continue
				}
				q, err := decodeQ(e)
				if err != nil {
					continue
				}
				if len(q.Errors) > 0 {
					vs = append(vs, Violation{Sig: prop + ":query-reports-errors-after-recovery", Msg: where + ": " + strings.Join(q.Errors, "; ")})
				}
				if fv, ok := op.Args["find"].(string); ok {
					// an event of a completed flush must be found by the value of its own field, exactly once
					must := false
					for i, x := range m.ByIndex[op.Index] {
						if x.VID == fv && i < m.Flushed[op.Index] {
							must = true
						}
					}
					n := 0
					for _, rec := range q.Records {
						if v, _ := rec["vid"].(string); v == fv {
							n++
						}
					}
					if must && n != 1 {
						vs = append(vs, Violation{Sig: prop + ":flushed-event-not-found-by-its-value", Msg: fmt.Sprintf("%s: %s returned %d records, event %s found %d times (its flush had completed before the crash)", where, op.Text, len(q.Records), fv, n)})
					}
					continue
				}
				if strings.Contains(op.Text, "stats count") && visible[op.Index] == nil {
					continue // no match-all to compare with (shrunk plan)
				}
				if strings.Contains(op.Text, "stats count") {
					// the count must agree with the number of visible events
					want := len(visible[op.Index])
					if flushedPost {
						want += len(postModel[op.Index])
					}
					got := int64(-1)
					for _, b := range q.Measure {
						for _, v := range b.M {
							switch x := v.(type) {
							case json.Number:
								got, _ = x.Int64()
							case string:
								fmt.Sscan(x, &got)
							}
						}
					}
					if len(q.Measure) == 0 {
						got = 0
					}
					// each query form sees the flush in progress entirely or not at all
					base := m.Flushed[op.Index]
					if flushedPost {
						base += len(postModel[op.Index])
					}
					alt := base + len(pending[op.Index])
					if got != int64(base) && got != int64(alt) {
						vs = append(vs, Violation{Sig: prop + ":count-wrong-after-recovery", Msg: fmt.Sprintf("%s: stats count=%d, expected %d (completed flushes) or %d (with the flush in progress); match-all returned %d events of %s", where, got, base, alt, want, op.Index)})
					}
					continue
				}
				cols := colInfos(append(append([]*Event{}, m.ByIndex[op.Index]...), postModel[op.Index]...))
				seen := map[string]int{}
				for _, rec := range q.Records {
					vid, _ := rec["vid"].(string)
					ev := m.ByVID[vid]
					if ev == nil {
						vs = append(vs, Violation{Sig: prop + ":garbage-record", Msg: fmt.Sprintf("%s: record with unknown vid %q: %s", where, vid, trimTo(fmt.Sprint(rec), 300))})
						continue
					}
					seen[vid]++
					if seen[vid] == 2 {
						vs = append(vs, Violation{Sig: prop + ":event-duplicated", Msg: fmt.Sprintf("%s: vid %s returned twice", where, vid)})
					}
					classes, detail := cmpRecord(ev, rec, cols)
					for _, c := range classes {
						if c == "numeric-string-returned-as-different-number-text" {
							continue // C01's known finding, not a durability matter
						}
						vs = append(vs, Violation{Sig: prop + ":content-" + c, Msg: where + ": " + detail})
					}
				}
				// every event of a completed flush is there
				lost := 0
				first := ""
				for _, ev := range m.ByIndex[op.Index][:m.Flushed[op.Index]] {
					if seen[ev.VID] == 0 {
						lost++
						if first == "" {
							first = ev.VID
						}
					}
				}
				if lost > 0 {
					vs = append(vs, Violation{Sig: prop + ":flushed-event-lost", Msg: fmt.Sprintf("%s: %d events of completed flushes of %s missing (first %s); %d returned", where, lost, op.Index, first, len(q.Records))})
				}
				// the flush in progress is all-or-nothing
				pv := 0
				for _, ev := range pending[op.Index] {
					if seen[ev.VID] > 0 {
						pv++
					}
				}
				if pv != 0 && pv != len(pending[op.Index]) {
					vs = append(vs, Violation{Sig: prop + ":partial-flush-visible", Msg: fmt.Sprintf("%s: %d of %d events of the flush in progress of %s are visible", where, pv, len(pending[op.Index]), op.Index)})
				}
				if visible[op.Index] == nil {
					vis := map[string]bool{}
					for v := range seen {
						vis[v] = true
					}
					visible[op.Index] = vis
				} else {
					// second query (after further ingest + flush): nothing recovered may have disappeared
					gone := 0
					for v := range visible[op.Index] {
						if seen[v] == 0 {
							gone++
						}
					}
					if gone > 0 {
						vs = append(vs, Violation{Sig: prop + ":recovered-data-overwritten", Msg: fmt.Sprintf("%s: %d events visible after recovery disappeared after later ingestion into %s", where, gone, op.Index)})
					}
					if flushedPost {
						miss := 0
						for _, ev := range postModel[op.Index] {
							if seen[ev.VID] == 0 {
								miss++
							}
						}
						if miss > 0 {
							vs = append(vs, Violation{Sig: prop + ":post-recovery-ingest-lost", Msg: fmt.Sprintf("%s: %d of %d events ingested after recovery not searchable in %s", where, miss, len(postModel[op.Index]), op.Index)})
						}
					}
				}
			}
		}
	}
	return dedupV(vs)
}

func init() {
	register(&Check{
		ID:    "C07",
		Level: "fault_enumeration",
		Rule: "for each seeded ingest history (1-2 indexes, 3-8 batches, flush/rotate steps, swarm knobs) the mutating file-system calls of the first incarnation are numbered 1..M by the disk seam; for crash point k the process _exits right after call k completes, a second process runs the shipped start-up on the same directory, queries, ingests more, flushes and queries again. thorough: every k of every history (exhaustive per history); quick: a stratified sample over the call kinds. distinct = distinct (history, digest of the on-disk tree at the crash); non-trivial = the crash landed after the first flush started A second family kills the process at operation boundaries in two or three successive incarnations (some right after a rotation, when the next segment directory exists but is empty) and requires every event whose flush had completed to be found by the last one.",
		Run:   runC07,
		Oracle: func(res *RunResult) []Violation {
			if res.Plan.Params["kills"] == true {
				return killsOracle("C07", res)
			}
			return crashOracle("C07", res)
		},
		Assumptions: []string{
			"process-crash model: completed system calls persist (the OS survives); torn writes are not part of C07",
			"flush completion is attributed to explicit flush/rotate operations (no timer-driven flush in the crash history)",
		},
		Components: stdComponents,
	})
}

type fsOp struct {
	N    int    `json:"n"`
	Op   string `json:"op"`
	Path string `json:"path"`
}

func fsTraceOf(ir *IncResult) []fsOp {
	end := ir.End()
	if end == nil {
		return nil
	}
	var tr []fsOp
	_ = json.Unmarshal(end["fs_trace"], &tr)
	return tr
}

func fileKind(p string) string {
	base := filepath.Base(p)
	switch {
	case strings.HasSuffix(base, ".sfm"):
		return "sfm"
	case strings.HasSuffix(base, ".bsu"):
		return "bsu"
	case strings.HasSuffix(base, ".csg"):
		return "csg"
	case strings.HasSuffix(base, ".cmi"):
		return "cmi"
	case strings.Contains(base, ".sst"):
		return "sst"
	case strings.Contains(base, "segmeta"):
		return "segmeta"
	case strings.HasSuffix(base, ".suffix") || strings.Contains(p, "suffix"):
		return "suffix"
	case strings.Contains(p, "pqmr") || strings.Contains(p, "pqs"):
		return "pqs"
	case strings.Contains(base, "virtualtable") || strings.Contains(p, "vtabledata"):
		return "vtable"
	case strings.Contains(p, "rups") || strings.HasSuffix(base, ".crup"):
		return "rollup"
	case strings.HasSuffix(base, ".str") || strings.HasSuffix(base, ".strl"):
		return "agiletree"
	}
	return "other"
}

func runC07(c *Ctx) {
	nHist, perHist := 6, 50
	if !c.Quick() {
		nHist, perHist = 100, 1 << 30
	}
	// successive kills at operation boundaries (two or three killed incarnations, then a reader)
	nKills := 40
	if !c.Quick() {
		nKills = 1500
	}
	c.Parallel(nKills, 0, func(i int) {
		r := c.Rng(uint64(1_000_000 + i))
		p := genSuccessiveKills(r)
		p.Property = "C07"
		p.Seed = c.Seed*1_000_003 + uint64(1_000_000+i)
		res, err := RunPlan(p, genericBetween)
		if err != nil || harnessTrouble(res) != "" {
			c.Harness(fmt.Sprintf("kills %d: %v", i, err))
			return
		}
		defer res.Cleanup()
		vs := c.Check.Oracle(res)
		c.Account(res, fmt.Sprintf("kills-%d", i), true, nil)
		c.Probe("successive_kill_histories", 1)
		c.mu.Lock()
		c.faultCounts["process_kill"] += len(p.Incs) - 1
		c.mu.Unlock()
		c.Report(p, vs)
	})
	exhaustiveAll := true
	type job struct {
		base *plan.Plan
		k    int
		hist int
		kind string
	}
	var jobs []job
	// base runs (fault-free) in parallel first
	bases := make([]*plan.Plan, nHist)
	traces := make([][]fsOp, nHist)
	firstFlushAt := make([]int, nHist)
	c.Parallel(nHist, 0, func(i int) {
		r := c.Rng(uint64(i) + 1)
		p := genCrashHistory(r, c.Quick())
		if i%5 == 1 {
			p = genIDLenHistory(r) // every tier holds histories of this family
		}
		p.Property = "C07"
		p.Seed = c.Seed*1_000_003 + uint64(i)
		res, err := RunPlan(p, genericBetween)
		if err != nil {
			c.Harness(fmt.Sprintf("base %d: %v", i, err))
			return
		}
		defer res.Cleanup()
		if h := harnessTrouble(res); h != "" {
			c.Harness(fmt.Sprintf("base %d: %s", i, h))
			return
		}
		vs := c.Check.Oracle(res)
		c.Account(res, fmt.Sprintf("h%d-nocrash", i), true, nil)
		c.Report(p, vs)
		bases[i] = p
		traces[i] = fsTraceOf(res.Incs[0])
		// fs op count when the first flush op started
		for oi, op := range p.Incs[0].Ops {
			if op.Kind == "flush" || op.Kind == "rotate" {
				if oi > 0 {
					if e := res.Incs[0].Get(fmt.Sprint(oi - 1)); e != nil {
						firstFlushAt[i] = e.FsOps
					}
				}
				break
			}
		}
	})
	for i, p := range bases {
		if p == nil {
			continue
		}
		tr := traces[i]
		M := len(tr)
		if M == 0 {
			c.Harness(fmt.Sprintf("base %d: empty fs trace", i))
			continue
		}
		var ks []int
		if M <= perHist {
			for k := 1; k <= M; k++ {
				ks = append(ks, k)
			}
		} else {
			exhaustiveAll = false
			// stratified: round-robin over (file kind, op) classes
			byClass := map[string][]int{}
			var classes []string
			for _, o := range tr {
				cl := fileKind(o.Path) + "/" + o.Op
				if _, ok := byClass[cl]; !ok {
					classes = append(classes, cl)
				}
				byClass[cl] = append(byClass[cl], o.N)
			}
			sort.Strings(classes)
			r := c.Rng(uint64(1000 + i))
			for len(ks) < perHist {
				progress := false
				for _, cl := range classes {
					l := byClass[cl]
					if len(l) == 0 {
						continue
					}
					j := r.IntN(len(l))
					ks = append(ks, l[j])
					byClass[cl] = append(l[:j], l[j+1:]...)
					progress = true
					if len(ks) >= perHist {
						break
					}
				}
				if !progress {
					break
				}
			}
		}
		for _, k := range ks {
			jobs = append(jobs, job{base: p, k: k, hist: i, kind: fileKind(tr[k-1].Path) + "/" + tr[k-1].Op})
		}
	}
	var sampleN int
	done := 0
	c.Parallel(len(jobs), 0, func(j int) {
		jb := jobs[j]
		p := jb.base.Clone()
		p.Incs[0].Faults = []plan.Fault{{Kind: "crash_after", At: jb.k}}
		p.Note = fmt.Sprintf("history %d crash after fs call %d (%s)", jb.hist, jb.k, jb.kind)
		var digest string
		res, err := RunPlan(p, func(dir string, next int) error {
			if next == 1 {
				digest = treeDigest(dir)
			}
			return genericBetween(dir, next)
		})
		if err != nil {
			c.Harness(fmt.Sprintf("job %d: %v", j, err))
			return
		}
		defer res.Cleanup()
		if h := harnessTrouble(res); h != "" {
			c.Harness(fmt.Sprintf("job %d: %s", j, h))
			return
		}
		if res.Incs[0].Exit != 77 {
			c.Harness(fmt.Sprintf("job %d: crash point %d did not fire (exit %d)", j, jb.k, res.Incs[0].Exit))
			return
		}
		vs := c.Check.Oracle(res)
		var sample any
		c.mu.Lock()
		if sampleN < 3 {
			sampleN++
			sample = map[string]any{"history": jb.hist, "crash_after_fs_call": jb.k, "call": jb.kind, "ops": opShape(p), "recovery_ops": len(p.Incs[1].Ops)}
		}
		done++
		c.mu.Unlock()
		c.Account(res, fmt.Sprintf("h%d-%s", jb.hist, digest), jb.k > firstFlushAt[jb.hist], sample)
		c.CrashState(fmt.Sprintf("h%d-%s", jb.hist, digest))
		c.Probe("crash@"+jb.kind, 1)
		c.Report(p, vs)
	})
	ex := exhaustiveAll && done == len(jobs) && !c.Stopped()
	c.exhaustive = &ex
	c.SetExtra("histories", nHist)
	c.SetExtra("crash_points_planned", len(jobs))
	c.SetExtra("crash_points_run", done)
}

func opShape(p *plan.Plan) string {
	var sb strings.Builder
	for _, op := range p.Incs[0].Ops {
		switch op.Kind {
		case "ingest":
			fmt.Fprintf(&sb, "i%d", len(op.Events))
		case "flush":
			sb.WriteString("F")
		case "rotate":
			sb.WriteString("R")
		default:
			sb.WriteString(op.Kind[:1])
		}
	}
	return sb.String()
}

// genSuccessiveKills: the process is killed (no graceful shutdown) at operation boundaries in two or three
// successive incarnations, each of which ingested and flushed - some right after a rotation, so that the stream's
// next segment directory exists but holds nothing yet. Every event whose flush or rotation had completed in any
// earlier incarnation must be found by the last one.
func genSuccessiveKills(r *rand.Rand) *plan.Plan {
	p := &plan.Plan{Knobs: swarmKnobs(r), Params: map[string]any{"kills": true}}
	p.Knobs.LowMem = false
	nInc := 2 + r.IntN(2)
	names := []string{"kA", "kB"}[:1+r.IntN(2)]
	gens := map[string]*EvGen{}
	for _, ix := range names {
		gens[ix] = NewEvGen(r, []string{"flat", "sparse", "card"}[r.IntN(3)], ix+"-", 5)
	}
	total := map[string]int{}
	for ii := 0; ii < nInc; ii++ {
		inc := plan.Incarnation{Boot: "full", SchedSeed: r.Uint64()>>11 | 1}
		for b := 0; b < 1+r.IntN(3); b++ {
			ix := names[r.IntN(len(names))]
			var evs []json.RawMessage
			for j := 0; j < 3+r.IntN(20); j++ {
				evs = append(evs, gens[ix].Next(simEpochMs+int64(r.IntN(3_600_000))).Raw)
			}
			total[ix] += len(evs)
			inc.Ops = append(inc.Ops, plan.Op{Kind: "ingest", Index: ix, Events: evs})
			switch r.IntN(4) {
			case 0:
				inc.Ops = append(inc.Ops, plan.Op{Kind: "rotate"}) // the kill may follow a rotation directly
			case 1:
				// nothing: this batch may be lost with the kill
			default:
				inc.Ops = append(inc.Ops, plan.Op{Kind: "flush"})
			}
		}
		p.Incs = append(p.Incs, inc)
	}
	last := plan.Incarnation{Boot: "full", SchedSeed: r.Uint64()>>11 | 1}
	for _, ix := range names {
		last.Ops = append(last.Ops, matchAll(ix, total[ix]+100), countQuery(ix))
	}
	p.Incs = append(p.Incs, last)
	return p
}

// killsOracle: durable = events of an ingest that was followed, in its own incarnation, by a completed flush or
// rotation; events of later batches of a killed incarnation may or may not have survived.
func killsOracle(prop string, res *RunResult) []Violation {
	var vs []Violation
	durable := map[string]map[string]*Event{}
	maybe := map[string]bool{}
	byVID := map[string]*Event{}
	n := len(res.Plan.Incs)
	for ii := 0; ii < n-1 && ii < len(res.Incs); ii++ {
		ir := res.Incs[ii]
		if ab := ir.Abnormal(); ab != "" {
			if ab == "harness" || ab == "wall-timeout" {
				return nil
			}
			return []Violation{{Sig: prop + ":kills:node-" + ab + ":" + ir.PanicSite(), Msg: trimTo(ir.Stderr, 1500)}}
		}
		pending := map[string][]*Event{}
		for oi := range res.Plan.Incs[ii].Ops {
			op := &res.Plan.Incs[ii].Ops[oi]
			e := ir.Get(fmt.Sprint(oi))
			if e == nil {
				break
			}
			switch op.Kind {
			case "ingest":
				for _, raw := range op.Events {
					if ev, err := parseEvent(raw); err == nil {
						byVID[ev.VID] = ev
						if e.Err == "" {
							pending[op.Index] = append(pending[op.Index], ev)
						} else {
							maybe[ev.VID] = true
						}
					}
				}
			case "flush", "rotate":
				for ix, evs := range pending {
					if durable[ix] == nil {
						durable[ix] = map[string]*Event{}
					}
					for _, ev := range evs {
						durable[ix][ev.VID] = ev
					}
				}
				pending = map[string][]*Event{}
			}
		}
		for _, evs := range pending {
			for _, ev := range evs {
				maybe[ev.VID] = true
			}
		}
	}
	if len(res.Incs) < n {
		return vs
	}
	ir := res.Incs[n-1]
	if ab := ir.Abnormal(); ab != "" {
		if ab == "harness" || ab == "wall-timeout" {
			return nil
		}
		site := ir.PanicSite()
		if ab == "hang" {
			site = ir.HangKind()
		}
		return []Violation{{Sig: prop + ":kills:recovery-" + ab + ":" + site, Msg: trimTo(ir.Stderr, 1500)}}
	}
	for oi := range res.Plan.Incs[n-1].Ops {
		op := &res.Plan.Incs[n-1].Ops[oi]
		e := ir.Get(fmt.Sprint(oi))
		if e == nil || op.Kind != "query" || op.Text != "*" {
			continue
		}
		if e.Err != "" {
			vs = append(vs, Violation{Sig: prop + ":kills:query-error", Msg: e.Err})
			continue
		}
		q, err := decodeQ(e)
		if err != nil {
			continue
		}
		seen := map[string]int{}
		for _, rec := range q.Records {
			vid, _ := rec["vid"].(string)
			seen[vid]++
			if byVID[vid] == nil {
				vs = append(vs, Violation{Sig: prop + ":kills:event-invented", Msg: fmt.Sprintf("index %s returns unknown event %q", op.Index, vid)})
			} else if seen[vid] == 2 {
				vs = append(vs, Violation{Sig: prop + ":kills:event-duplicated", Msg: fmt.Sprintf("index %s returns %s twice", op.Index, vid)})
			}
		}
		lost, first := 0, ""
		for vid := range durable[op.Index] {
			if seen[vid] == 0 {
				lost++
				if first == "" || vid < first {
					first = vid
				}
			}
		}
		if lost > 0 {
			vs = append(vs, Violation{Sig: prop + ":kills:flushed-event-lost-after-successive-kills", Msg: fmt.Sprintf("index %s: %d of %d events whose flush had completed before a kill are not found after %d kills (first %s)", op.Index, lost, len(durable[op.Index]), n-1, first)})
		}
	}
	return dedupV(vs)
}
