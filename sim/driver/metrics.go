package main

import (
	"encoding/json"
	"fmt"
	"math"
	"sort"
	"strconv"
	"strings"

	"simlens/plan"
)

// DP is one metric datapoint of the model.
type DP struct {
	Metric string
	Tags   map[string]string
	TS     uint32
	V      float64
}

func (d DP) Key() string { return seriesKeyOf(d.Metric, d.Tags) }

// seriesKeyOf is the model's canonical series identity: name plus sorted tag pairs.
func seriesKeyOf(metric string, tags map[string]string) string {
	ks := make([]string, 0, len(tags))
	for k := range tags {
		ks = append(ks, k)
	}
	sort.Strings(ks)
	var sb strings.Builder
	sb.WriteString(metric)
	sb.WriteString("{")
	for _, k := range ks {
		sb.WriteString(k)
		sb.WriteString(":")
		sb.WriteString(tags[k])
		sb.WriteString(",")
	}
	return sb.String()
}

func fmtFloat(v float64) string {
	if v == 0 && math.Signbit(v) {
		return "-0.0"
	}
	return strconv.FormatFloat(v, 'g', -1, 64)
}

// Raw renders the datapoint as an OpenTSDB put document.
func (d DP) Raw() json.RawMessage {
	ks := make([]string, 0, len(d.Tags))
	for k := range d.Tags {
		ks = append(ks, k)
	}
	sort.Strings(ks)
	var tp []string
	for _, k := range ks {
		tp = append(tp, jsonStr(k)+":"+jsonStr(d.Tags[k]))
	}
	return json.RawMessage(fmt.Sprintf(`{"metric":%s,"tags":{%s},"timestamp":%d,"value":%s}`, jsonStr(d.Metric), strings.Join(tp, ","), d.TS, fmtFloat(d.V)))
}

// parseDP rebuilds a model datapoint from the raw document in a plan (shrink-safe oracle input).
func parseDP(raw json.RawMessage) (DP, error) {
	var x struct {
		Metric    string            `json:"metric"`
		Tags      map[string]string `json:"tags"`
		Timestamp uint32            `json:"timestamp"`
		Value     json.Number       `json:"value"`
	}
	dec := json.NewDecoder(strings.NewReader(string(raw)))
	dec.UseNumber()
	if err := dec.Decode(&x); err != nil {
		return DP{}, err
	}
	v, err := strconv.ParseFloat(x.Value.String(), 64)
	if err != nil {
		return DP{}, err
	}
	return DP{Metric: x.Metric, Tags: x.Tags, TS: x.Timestamp, V: v}, nil
}

// MetricsModel: series key -> datapoints in ingest order.
type MetricsModel struct {
	Series map[string][]DP
	Order  []DP
}

func newMetricsModel() *MetricsModel { return &MetricsModel{Series: map[string][]DP{}} }

func (m *MetricsModel) add(d DP) {
	k := d.Key()
	m.Series[k] = append(m.Series[k], d)
	m.Order = append(m.Order, d)
}

// applyMput adds the accepted datapoints of an mput op.
func (m *MetricsModel) applyMput(op *plan.Op, e *plan.Entry) (rejected int) {
	var d struct {
		Errors []string `json:"errors"`
	}
	if e != nil {
		_ = json.Unmarshal(e.Data, &d)
	}
	for i, raw := range op.Events {
		if i < len(d.Errors) && d.Errors[i] != "" {
			rejected++
			continue
		}
		dp, err := parseDP(raw)
		if err != nil {
			rejected++
			continue
		}
		m.add(dp)
	}
	return
}

type mqPoint struct {
	T    uint32 `json:"t"`
	Bits string `json:"b"`
	V    string `json:"v"`
}

type mqData struct {
	Series map[string][]mqPoint `json:"series"`
	Errors []string             `json:"errors"`
}

func decodeMQ(e *plan.Entry) (*mqData, error) {
	var q mqData
	if err := json.Unmarshal(e.Data, &q); err != nil {
		return nil, err
	}
	return &q, nil
}

func bitsOf(p mqPoint) uint64 {
	b, _ := strconv.ParseUint(p.Bits, 16, 64)
	return b
}

// parseSeriesID splits "name{k:v,k:v," into name and labels (values may contain ':' but not ',').
func parseSeriesID(id string) (string, map[string]string) {
	i := strings.IndexByte(id, '{')
	if i < 0 {
		return id, map[string]string{}
	}
	name := id[:i]
	rest := strings.TrimSuffix(id[i+1:], ",")
	labels := map[string]string{}
	if rest == "" {
		return name, labels
	}
	for _, kv := range strings.Split(rest, ",") {
		p := strings.SplitN(kv, ":", 2)
		if len(p) == 2 {
			labels[p[0]] = p[1]
		}
	}
	return name, labels
}

func mathFloat64bits(v float64) uint64 { return math.Float64bits(v) }
