package main

import (
	"encoding/json"
	"math/rand/v2"

	"simlens/plan"
)

// genTraceHourlyPlan: the node's own hourly dependency-graph job on the fake clock. Spans with cross-service
// parent-child pairs arrive in two different hours (the same edges occur in both), the job runs at the top of
// each hour and stores one matrix per hour in the index service-dependency; then the aggregated graph
// (/api/traces/dependencies, the route the UI and the Jaeger dependencies API read) is asked for a window that
// covers both stored matrices: every pair must be counted exactly once. Two simulated hours under the seeded
// scheduler cost about a minute of wall time, so this family is a small fixed share of the runs.
func genTraceHourlyPlan(r *rand.Rand) *plan.Plan {
	k := plan.Knobs{Sched: true, Procs: []int{1, 2, 4}[r.IntN(3)]}
	k.PQS = &boolF
	p := &plan.Plan{Knobs: k, Params: map[string]any{"hourly": true}}
	nsvc := 2 + r.IntN(3)
	var traces []traceSpec
	inc := plan.Incarnation{Boot: "full", SchedSeed: r.Uint64()>>11 | 1}
	elapsed := int64(2000)
	advTo := func(ms int64) {
		if ms > elapsed {
			inc.Ops = append(inc.Ops, plan.Op{Kind: "advance", DurMs: ms - elapsed})
			elapsed = ms
		}
	}
	const hour = int64(3_600_000)
	for h := int64(0); h < 2; h++ {
		// somewhere well inside the hour (span start times lie up to 3 s before the export)
		advTo(h*hour + int64(5+r.IntN(45))*60_000)
		nt := 2 + r.IntN(5)
		var spans []spanSpec
		for i := 0; i < nt; i++ {
			t := genTrace(r, nsvc, "ok", 2+r.IntN(9))
			t.Win = int(h) + 1
			traces = append(traces, t)
			spans = append(spans, t.Spans...)
		}
		nreq := 1 + r.IntN(3)
		for q := 0; q < nreq; q++ {
			lo, hi := len(spans)*q/nreq, len(spans)*(q+1)/nreq
			if hi > lo {
				b, _ := json.Marshal(spans[lo:hi])
				inc.Ops = append(inc.Ops, plan.Op{Kind: "otlp_traces", Body: string(b)})
			}
		}
		inc.Ops = append(inc.Ops, plan.Op{Kind: "flush"})
		// past the top of the hour: the job computes the matrix of the hour that just ended and stores it
		advTo((h+1)*hour + int64(20+r.IntN(100))*1000)
		inc.Ops = append(inc.Ops, plan.Op{Kind: "flush"})
	}
	p.Params["traces"] = traces
	body := map[string]any{"startEpoch": "now-3h", "endEpoch": "now", "queryLanguage": "Splunk QL"}
	inc.Ops = append(inc.Ops, plan.Op{Kind: "http", Body: jsonStr2(body), Args: map[string]any{"server": "query", "method": "POST", "path": "/api/traces/dependencies", "view": "depagg"}})
	// the last hour alone: only the second matrix
	body2 := map[string]any{"startEpoch": "now-30m", "endEpoch": "now", "queryLanguage": "Splunk QL"}
	inc.Ops = append(inc.Ops, plan.Op{Kind: "http", Body: jsonStr2(body2), Args: map[string]any{"server": "query", "method": "POST", "path": "/api/traces/dependencies", "view": "depagg", "only_hour": 2}})
	p.Incs = []plan.Incarnation{inc}
	return p
}
