module simlens

go 1.26.8
