// Package plan defines the replayable description of one simulated run: knobs, the operations of
// every incarnation, the fault schedule and the scheduler choice vector. It is pure data (no siglens
// imports) and is shared by the driver (generation, oracle, shrinking) and the child (execution).
package plan

import (
	"bytes"
	"encoding/json"
	"os"
)

// Plan is one run = one seed = one exactly repeatable execution.
type Plan struct {
	Property string        `json:"property"`
	Seed     uint64        `json:"seed"`
	Note     string        `json:"note,omitempty"`
	Knobs    Knobs         `json:"knobs"`
	Incs     []Incarnation `json:"incs"`
	// Free-form generator parameters the oracle needs to interpret the journal.
	Params map[string]any `json:"params,omitempty"`
}

// Knobs are per-run configuration choices (swarm testing).
type Knobs struct {
	Procs           int                 `json:"procs,omitempty"`             // value repo code sees for runtime.GOMAXPROCS(0)
	CardLimit       int                 `json:"card_limit,omitempty"`        // dictionary cardinality limit (0 = default)
	MaxSegFileSize  uint64              `json:"max_seg_file_size,omitempty"` // 0 = default
	PQS             *bool               `json:"pqs,omitempty"`
	Aggs            *bool               `json:"aggs,omitempty"` // agile tree
	LowMem          bool                `json:"low_mem,omitempty"`
	MemBytes        uint64              `json:"mem_bytes,omitempty"` // memoryLimits.maxMemoryAllowedToUseInBytes: the memory limiter evicts metadata under it
	IdleFlushSecs   int                 `json:"idle_flush_secs,omitempty"`
	MaxWaitSecs     int                 `json:"max_wait_secs,omitempty"`
	QueryTimeoutSec int                 `json:"query_timeout_secs,omitempty"`
	MaxRunning      int                 `json:"max_running,omitempty"`
	RetentionHours  int                 `json:"retention_hours,omitempty"`
	SortCols        map[string][]string `json:"sort_cols,omitempty"`        // index -> sort-index columns
	Sched           bool                `json:"sched,omitempty"`            // seeded scheduler on
	PreemptPermille int                 `json:"preempt_permille,omitempty"` // probability of a forced switch at a yield point
	DelayPermille   int                 `json:"delay_permille,omitempty"`   // fraction of yield sites that hold tasks back (per-run subset)
	DelayLen        int                 `json:"delay_len,omitempty"`        // for how many scheduling decisions
	MaxDecisions    int                 `json:"max_decisions,omitempty"`    // decision budget of an incarnation (0: 5 M + 3000 per simulated second of advance)
	DelaySites      []string            `json:"delay_sites,omitempty"`      // yield sites (substring match) that always hold tasks back
	MetricsKnobs    map[string]int      `json:"metrics_knobs,omitempty"`
	StatfsFreePct   int                 `json:"statfs_free_pct,omitempty"`
	// Orgs: the organisations the node knows (hooks.GlobalHooks.GetIdsConditionHook, the seam the multi-tenant
	// build uses); empty = the open-source default, organisation 0 only.
	Orgs []int64 `json:"orgs,omitempty"`
}

// Incarnation is one process lifetime on the shared data directory.
type Incarnation struct {
	Boot      string  `json:"boot"` // "lite" | "full"
	Ops       []Op    `json:"ops"`
	Faults    []Fault `json:"faults,omitempty"`
	Choices   []int   `json:"choices,omitempty"`    // scheduler choice vector (see simrt)
	SchedSeed uint64  `json:"sched_seed,omitempty"` // PRNG for choices beyond the vector / map order
}

// Fault is a disk-seam fault keyed by the number of the mutating fs call it targets.
type Fault struct {
	Kind string `json:"kind"` // crash_after | crash_torn | fail | short | full_after | read_eio
	At   int    `json:"at"`   // 1-based index of the mutating fs call (or read call for read_eio)
	N    int    `json:"n,omitempty"`
	Err  string `json:"err,omitempty"`  // EIO | ENOSPC | EMFILE
	Path string `json:"path,omitempty"` // optional substring filter: counts only calls whose path contains it
}

// Op is one operation of the world API. Unused fields are omitted.
type Op struct {
	Kind string `json:"kind"`
	// common
	Org   int64  `json:"org,omitempty"`
	Index string `json:"index,omitempty"`
	Name  string `json:"name,omitempty"`
	// ingest
	Proto  string            `json:"proto,omitempty"`
	Events []json.RawMessage `json:"events,omitempty"`
	Body   string            `json:"body,omitempty"` // raw body (bulk bodies, protocol payloads; base64 if Bin)
	Bin    bool              `json:"bin,omitempty"`
	// time
	DurMs int64 `json:"dur_ms,omitempty"`
	// query
	Text  string `json:"text,omitempty"`
	Lang  string `json:"lang,omitempty"`
	Start int64  `json:"start,omitempty"`
	End   int64  `json:"end,omitempty"`
	From  int    `json:"from,omitempty"`
	Size  int    `json:"size,omitempty"`
	Step  int64  `json:"step,omitempty"`
	// generic arguments
	Args map[string]any `json:"args,omitempty"`
	// par: concurrent client tasks, each a list of ops
	Par [][]Op `json:"par,omitempty"`
}

// Entry is one journal line written by a child when an operation returns.
type Entry struct {
	Inc   int             `json:"inc"`
	Idx   string          `json:"idx"` // op index path, e.g. "3" or "5.1.2" (par op 5, client 1, op 2)
	Kind  string          `json:"kind"`
	Phase string          `json:"phase,omitempty"` // "invoke" | "return" (par clients) | "" (sequential: return)
	Seq   uint64          `json:"seq"`             // global event sequence number (scheduler decision count)
	SimMs int64           `json:"sim_ms"`          // simulated unix millis when the op returned
	FsOps int             `json:"fs_ops"`          // mutating fs calls completed so far
	Err   string          `json:"err,omitempty"`
	Data  json.RawMessage `json:"data,omitempty"`
}

func Load(path string) (*Plan, error) {
	b, err := os.ReadFile(path)
	if err != nil {
		return nil, err
	}
	var p Plan
	if err := json.Unmarshal(b, &p); err != nil {
		return nil, err
	}
	return &p, nil
}

// Encode renders the plan without HTML escaping: raw event documents must keep their exact bytes.
func (p *Plan) Encode(indent bool) ([]byte, error) {
	var buf bytes.Buffer
	enc := json.NewEncoder(&buf)
	enc.SetEscapeHTML(false)
	if indent {
		enc.SetIndent("", " ")
	}
	if err := enc.Encode(p); err != nil {
		return nil, err
	}
	return buf.Bytes(), nil
}

func (p *Plan) Save(path string) error {
	b, err := p.Encode(false)
	if err != nil {
		return err
	}
	return os.WriteFile(path, b, 0o644)
}

func (p *Plan) Clone() *Plan {
	b, _ := p.Encode(false)
	var q Plan
	_ = json.Unmarshal(b, &q)
	if q.Params == nil {
		q.Params = map[string]any{}
	}
	return &q
}
