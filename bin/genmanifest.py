#!/usr/bin/env python3
"""Regenerates /verif/MANIFEST.json from the table below (one place to keep it consistent)."""
import json, os, sys
root = os.path.dirname(os.path.dirname(os.path.abspath(__file__)))

TRUST = ("Trusted base: Go 1.26.8 testing/synctest (fake clock, quiescence), the simrt baton scheduler and the build-time "
         "rewriter of /verif (seams are generated from /repo's working tree, nothing is committed to /repo), the reference model "
         "in sim/driver, and third-party modules which run unmodified. A clean batch is evidence over the seeds explored, not proof.")

checks = {
 "C01": dict(level="exploration", ref="DESIGN.md §4 C01",
   technique="deterministic simulation: seeded ingest/flush/rotate/restart histories on the real node under the seeded scheduler, checked against an event-set reference model",
   text="Seeded search over ingest histories (batching, flush, forced rotation, idle-timer flush, graceful restart, swarm knobs) executed by the real writer/reader/query code inside a deterministic simulator; after every flush-completing step the match-all result must equal the model's event multiset field by field. Exploration is the right level: the space of histories x JSON shapes is unbounded.",
   note=TRUST + " Not generated: duplicate keys, keys containing dots, integers above int64. Interpretation: every value of a mixed-type column may come back in canonical text form (the statement's relaxation applied to the whole column)."),
}

not_applicable = {
 "C02": "pure function of (filter expression, stored values): no schedule, clock, fault or interleaving to simulate; the layout-dependent part (pruning) is decided under C03",
}

pending = "check not built yet in this session (work in progress; will be claimed when its simulator workload and oracle exist)"

props = [json.loads(l)["id"] for l in open(os.path.join(root, "properties.jsonl"))]
m = {
 "version": 1,
 "setup_cmd": "bin/setup.sh",
 "hooks": {
  "guard": "verifsim",
  "enable": "bin/simbuild: rewriter(/repo working tree) -> overlay.json; go1.26.8 test -c -overlay overlay.json (no hook is committed to /repo; the overlay is generated at check time)",
  "baseline_off_cmd": "bin/baseline_off.sh",
  "source_commits": [],
  "add_only": True,
 },
 "engines": [{
  "name": "simlens",
  "path": "sim/",
  "serves_properties": sorted(checks.keys()),
  "kind_free_text": "deterministic whole-node simulator: synctest fake clock + seeded cooperative scheduler + simulated disk/network seams injected by a build-time AST rewriter; process-per-incarnation crash model; reference-model oracles; plan shrinking and replay",
 }],
 "checks": [],
 "not_applicable": [],
 "notes": "All checks: bin/check <ID> --tier quick|thorough; replay: bin/check <ID> --replay <file>. Exit 0 held / 1 VIOLATION / 2 build or harness trouble. VERIF_SEED selects the PRNG stream; VERIF_REPO (default /repo) selects the tree that is rebuilt.",
}
for pid in props:
    if pid in checks:
        c = checks[pid]
        m["checks"].append({
         "property_id": pid,
         "quick_cmd": f"bin/check {pid} --tier quick",
         "thorough_cmd": f"bin/check {pid} --tier thorough",
         "evidence_file": f"evidence/{pid}.json",
         "replay_cmd_template": f"bin/check {pid} --replay {{path}}",
         "engine": "simlens",
         "level_claimed": {"category": c["level"], "text": c["text"], "design_ref": c["ref"]},
         "level_note": c["note"],
         "technique": c["technique"],
        })
    else:
        m["not_applicable"].append({"property_id": pid, "reason": not_applicable.get(pid, pending)})
json.dump(m, open(os.path.join(root, "MANIFEST.json"), "w"), indent=1)
print("MANIFEST.json:", len(m["checks"]), "checks,", len(m["not_applicable"]), "not claimed")
