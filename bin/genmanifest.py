#!/usr/bin/env python3
"""Regenerates /verif/MANIFEST.json from the table below (one place to keep it consistent)."""
import json, os, sys
root = os.path.dirname(os.path.dirname(os.path.abspath(__file__)))

TRUST = ("Trusted base: Go 1.26.8 testing/synctest (fake clock, quiescence), the simrt baton scheduler and the build-time "
         "rewriter of /verif (seams are generated from /repo's working tree, nothing is committed to /repo), the reference model "
         "in sim/driver, and third-party modules which run unmodified. A clean batch is evidence over the seeds explored, not proof.")

checks = {
 "C03": dict(level="exploration", ref="DESIGN.md §4 C03",
   technique="deterministic differential simulation: one dataset and query pool answered in 3-4 simulated worlds that differ only physically (batching, flush/rotation/restart points, cardinality limit, segment size, GOMAXPROCS, PQS and agile tree primed or off, memory-pressure faults that evict open-segment and rotated micro-indexes); canonical answers must agree",
   text="World sets are generated from one seed and each world runs the real node under the simulator; usage-driven accelerators (persistent-query results, agile tree) are primed by issuing the pool before ingestion, pruning paths by rotation; any difference between the canonical answers of two worlds is a violation with both world descriptions in the replay file.",
   note=TRUST + " Only layout-dependence is reported (a filter wrong identically in every layout is C02). Accelerator files are not removed/made unreadable between incarnations; micro-index unavailability is injected in memory (mem_pressure: the memory limiter's rebalance entry points with a simulator-chosen budget)."),
 "C06": dict(level="exploration", ref="DESIGN.md §4 C06",
   technique="deterministic differential simulation: random command chains over one dataset answered under different chunkings (block and segment counts), numbers of parallel chains (GOMAXPROCS knob) and seeded interleavings of the chain goroutines; answers must be equal",
   text="The same chain text is executed in 4 worlds whose only differences are how the input stream is cut into blocks and segments, how many parallel chains the query processor clones, and the scheduler's interleaving of those chains; row sequences (where the chain defines an order), row multisets or group maps must be identical.",
   note=TRUST + " Absolute per-command semantics is not claimed (pure input property). Chains end at the first aggregation or mvexpand (their row order is undefined)."),
 "C04": dict(level="exploration", ref="DESIGN.md §4 C04",
   technique="deterministic simulation: seeded ingest/flush/rotate/restart histories with generated stats (incl. values/list) / group-by / timechart queries after every step, compared with a reference aggregator over the model's flushed events",
   text="The segmentation of the data (which decides whether ingest-time statistics, running block results or merged segment results answer) is explored by seeded histories on the real node; every stats/timechart answer is compared with a small reference aggregator (exact for count/min/max, 1e-9 for sums and averages, documented generous tolerances for dc and percentiles) and any node panic or hang on a legal query is a violation.",
   note=TRUST + " Agile tree disabled here (acceleration-vs-raw is C03's question). Measures over numeric fields only; the group of events lacking a by-field is unconstrained."),
 "C05": dict(level="exploration", ref="DESIGN.md §4 C05",
   technique="deterministic simulation: seeded histories with out-of-order/tied timestamps and overlapping blocks and segments; default order, head, sort (num/str/auto, multi-key, limits) and from/size paging checked against an order model",
   text="Arrival order x flush/rotation timing produces overlapping block and segment time ranges on the real node; the searcher's block scheduling, cut-off timestamps and carry-over, the sort processor and the scroll offsets are then checked by order laws: newest-first, the n newest, adjacent pairs ordered under the requested keys, a limit is a prefix, pages partition the matches.",
   note=TRUST + " Sort keys are dense and same-typed; ties may resolve either way."),
 "C07": dict(level="fault_enumeration", ref="DESIGN.md §4 C07",
   technique="deterministic simulation with crash-point enumeration: the process _exits after the k-th mutating file-system call of a seeded ingest history, the shipped start-up runs on the same directory, queries are checked against the event model",
   text="Every mutating file-system call of the flush/rotate/metadata code is a numbered crash point of the simulated disk; the thorough tier takes every k of every explored history (exhaustive per history and schedule), the quick tier a stratified sample. After the crash a fresh process runs the real StartSiglensServer and the oracle checks: start-up succeeds, completed flushes are fully searchable with exact content, the flush in progress is all-or-nothing per query form, no garbage, later ingestion does not overwrite recovered data, no hang.",
   note=TRUST + " Crash model: completed system calls persist (process crash, OS survives). Flush completion is attributed to explicit flush/rotate operations."),
 "C08": dict(level="exploration", ref="DESIGN.md §4 C08",
   technique="deterministic simulation: seeded metrics histories (adversarial float/timestamp streams, colliding tag sets) across WAL/rotation/tags-tree/2 h timers on the fake clock and graceful restarts, checked bit by bit against a series reference model",
   text="The real metrics writer, block/segment rotation driven by its own timers on the simulated clock, tags tree, series readers and PromQL range path are run on seeded histories; every 1-second-step selector answer must equal the model series by series, timestamp by timestamp and bit by bit, before and after block rotation, segment rotation and restart. Exploration is the right level (unbounded value/timestamp/rotation space).",
   note=TRUST + " Observed through the public range-query path with a 1 s step (one sample per bucket). NaN/Inf are not expressible in the JSON ingest formats and are not generated."),
 "C09": dict(level="exploration", ref="DESIGN.md §4 C09",
   technique="deterministic simulation: seeded label sets and value grids queried in several physical states (open, block-rotated, segment-rotated, restarted) and compared with a reference evaluator of the stated PromQL subset",
   text="Generated selectors (= != =~ !~), aggregations (sum/min/max/avg/count with by/without/none), vector-vector and vector-scalar arithmetic and sum/count ratios are evaluated by the real engine after every history step and compared with a small reference evaluator; the same queries are therefore answered from open and rotated data and across restarts.",
   note=TRUST + " One sample per step per series on a gap-free grid (no staleness/lookback semantics involved); every series carries every label."),
 "C10": dict(level="fault_enumeration", ref="DESIGN.md §4 C10",
   technique="deterministic simulation with fault enumeration: crash after every fs call of seeded metrics WAL histories followed by real recovery and queries; every truncation length and every byte x {flip,0x00,0xFF} of every WAL file read back through the real WAL iterators",
   text="Three enumerations per seeded history: crash points (end-to-end: recovered datapoints/metric names/segment metadata must include everything whose append completed, be per-series prefixes, contain nothing unwritten, bit-exact), truncations and single-byte corruptions of the WAL files (the real iterators must yield a prefix of the intact sequence). Thorough covers the spaces completely for the explored histories.",
   note=TRUST + " Datapoints are required to be reachable only for series whose tags tree had been flushed (the tags tree has no WAL of its own; that gap is reported in DESIGN, not counted against C10)."),
 "C11": dict(level="exploration", ref="DESIGN.md §4 C11",
   technique="deterministic simulation: seeded schedule search (baton scheduler, PRNG-driven pre-emption at every lock/channel/fs yield point) over concurrent ingest, timer flushes, rotation, searches and memory-limiter evictions (fault: simulator-chosen memory budget), with an interval oracle over invoke/return sequence numbers, wait-for-graph deadlock detection, spin/hang watchdogs",
   text="The interleaving of ingesters, the real idle/max-wait flush loops, a rotator and searchers is the choice sequence of a seeded scheduler that owns which goroutine runs; each search is judged by interval rules (no event twice, nothing from the future, everything whose flush completed before the search began, exact contents after quiescence); deadlocks, hangs and panics of the node are violations. Exploration is the right level for an unbounded schedule space.",
   note=TRUST + " Because tasks are serialised by the baton, raw unsynchronised memory accesses are not observed: the 'no data races' clause is decided only through its visible effects, lock-order deadlocks and crashes."),
 "C13": dict(level="exploration", ref="DESIGN.md §4 C13",
   technique="deterministic simulation: seeded create/ingest/alias/delete/restart histories over several organisations and prefix-related index names (wildcards in leading, inner and trailing position), every query form checked against a tenant/index reference model",
   text="Histories over 2-3 organisations and index names that are prefixes of each other are executed on the real node (real virtual-table, alias, delete and start-up code); after every step searches and group-by counts for every (organisation, index expression) must return exactly the model's events of the indexes of that organisation that the expression names.",
   note=TRUST + " Organisations are selected through the myid parameter of the real entry points (the open-source HTTP layer always uses organisation 0)."),
 "C14": dict(level="fault_enumeration", ref="DESIGN.md §4 C14",
   technique="deterministic simulation on the fake clock with crash-point enumeration: segments placed around the retention horizon, the real time-based pass, a crash after every mutating fs call of the pass, restart and repeated pass, store digest compared with the uninterrupted run; segments tied on their newest instant; the node's in-memory segment lists must agree after a pass",
   text="Victims must be exactly the rotated segments whose newest event is older than the horizon (decided at pass time on the simulated clock); survivors stay fully searchable, deleted data is gone, counts agree; for every crash point inside the pass the restarted node repeats the pass and must reach the same store digest (segment directories, segmeta.json, metrics meta, table names) as the uninterrupted run. Exhaustive over the pass's fs calls per explored history in the thorough tier.",
   note=TRUST + " Only the time-based pass is driven (volume- and inode-based passes are not). Segments are kept at least two minutes away from the horizon."),
 "C15": dict(level="exploration", ref="DESIGN.md §4 C15",
   technique="deterministic simulation with store-fault injection: generated bulk bodies sent through the in-memory listener to the real bulk route, EIO/ENOSPC/short-write/disk-full faults landing on chosen writes of the in-line flush, response items compared with what a search finds after the next flush",
   text="Bulk bodies mixing valid and invalid actions go through the real fasthttp router and handler; a quarter of the cases are >2 MB requests whose in-line flush meets a store fault chosen by the plan at the disk seam. The oracle relates every response item to its action and to the documents found afterwards (created <=> searchable once, failed => absent, errors flag, locality of bad actions); under faults the relaxation is narrow: a failed item may be absent, a created item must be present.",
   note=TRUST + " The 1000-seg-store limit is not driven. Unknown/delete actions are generated without a following document line."),
 "C19": dict(level="exploration", ref="DESIGN.md §4 C19",
   technique="deterministic simulation with a path-policing disk seam: hostile names (plain, percent-encoded once and twice, deep traversal) driven through every API that derives a path from request data; every file-system call of the real code is checked at the seam against the allowed roots, plus a sentinel tree around the data directory",
   text="Because every os call of the repository goes through the simulated disk seam, the oracle sees each operation the real code attempts - including ones that fail or are undone - and refuses (and reports) any whose cleaned absolute path is outside the data and log directories; a sentinel tree catches writers that bypass the seam.",
   note=TRUST + " Reads of the fixed configured locations defaultDBs/, static/, server.yaml, /proc are allowed. Scroll ids are not driven."),
 "C16": dict(level="exploration", ref="DESIGN.md §4 C16",
   technique="deterministic simulation on the fake clock under the seeded scheduler: logical events delivered through the real HTTP routes of five protocols (ES bulk/doc, Splunk HEC, Loki, OTLP logs protobuf) at known simulated instants, with clock jumps between receipt, flush and query; stored fields and times compared with the protocol mapping and the carried / arrival time",
   text="The fake clock makes 'the time of arrival is used only when the event has no time of its own' an exact equality: each event's stored time must be its carried time, or lie in the simulated arrival interval iff none was carried, even though minutes (in one thorough run in twenty: hours) of simulated time pass before the flush and before the query. Fields, numbers and messages must be preserved under each protocol's mapping.",
   note=TRUST + " Driven: Elasticsearch bulk and single-document, Splunk HEC, Loki push JSON. Not driven: OTLP logs/traces/metrics (protobuf), Prometheus remote write; OpenTSDB put is covered by C08."),
 "C17": dict(level="exploration", ref="DESIGN.md §4 C17",
   technique="deterministic simulation: seeded schedule search over the query lifecycle (concurrent synchronous and websocket queries incl. malformed texts, stalling/disconnecting websocket clients over synchronous in-memory pipes, canceller, stall faults that let the short query time-out fire on the fake clock, admission limit 1-5, memory-starved histories in which the limiter refuses search memory), checked for admission limits, bounded answer time after faults stop, cancel promptness, empty tables and exact goroutine-leak detection after quiescence",
   text="Query clients, a canceller, a stall-fault injector and a monitor run as tasks of the seeded scheduler against the real admission queue, time-out goroutines and query pipeline; because the simulator owns task creation, 'no goroutine of the query remains' is decided exactly by comparing the live task set with the pre-workload baseline; deadlocks, hangs, spins and panics of the node are violations.",
   note=TRUST + " Decides the lifecycle/schedule half of C17. 'For all byte strings' parser totality is a pure input property: only a pool of malformed texts is sampled. Memory starvation is provoked through the configured memory budget (the limiter's refusal), not through failing Go allocations."),
 "C18": dict(level="fault_enumeration", ref="DESIGN.md §4 C18",
   technique="deterministic simulation with damage enumeration: every truncation length and every byte x {bit flip, 0x00, 0xFF} of every file of a small deterministic node (log and metrics segments) applied between incarnations (a fresh process boots and runs a query suite) and, for every fourth damage, also under the running node between two passes of the suite; answers compared row by row with the undamaged answers",
   text="Damage faults are applied by the driver to the stored files between two incarnations; the real start-up and query code runs on the damaged tree. Per query: every returned row must equal the undamaged row (altered values from a checksummed column block are never accepted), rows may be missing only with a reported error and only from queries touching the damaged file, no crash, no hang. Thorough enumerates the space until the time budget; exhaustive is claimed only when everything was run.",
   note=TRUST + " One damage at a time; the query suite is fixed (9 queries). Many robustness defects of unchecksummed metadata files are recorded as known findings; altered values from .csg blocks are not among them and fail the check."),
 "C12": dict(level="exploration", ref="DESIGN.md §4 C12",
   technique="deterministic simulation on the fake clock: seeded span forests exported over OTLP/HTTP protobuf to the real ingest route in seeded order and batching across two windows of the node's own 5-minute RED job, optional kill/graceful restart, and (one case in forty) the node's own hourly dependency-graph job over two simulated hours with the aggregated-graph route; trace list (all pages), trace count, span trees, dependency matrix and RED rows compared with an independent computation over the forest",
   text="The views depend on history (order and batching of the export requests, flushed vs unflushed data, which process wrote the spans) and on the clock (the RED job computes its rows from what arrived in the last five simulated minutes); both are driven by the simulator. Each arrived span must be covered by exactly one RED run; every well-formed trace must be listed once with the root's service/operation and exact span and error counts; a span tree must contain every span once beneath its parent also for traces larger than the 1000-span page; the dependency matrix must count exactly the cross-service parent/child pairs also beyond one result page; malformed traces (missing parent, two roots, cycle, duplicate span) may be refused or partial but must not crash, hang, show foreign spans or take other traces' answers down.",
   note=TRUST + " The hourly DependencyGraphThread and the aggregated /dependencies route are not reached (the on-demand generate-dep-graph route is). Jaeger routes are not driven. Root start/end times are compared to 1 us (they pass through float64). Span times lie within 3 s of the export instant."),
 "C20": dict(level="exploration", ref="DESIGN.md §4 C20",
   technique="deterministic simulation on the fake clock with restarts and a seeded scheduler: (A) the node's own alert cron jobs evaluate generated log alerts over seeded per-minute event batches with seeded webhook delivery failures and alert edits in mid-run; history, state and recorded deliveries compared with the N-window state machine over a reference aggregate evaluator; (B) seeded create/update/rename/move/delete/list histories with kill and graceful restarts, interleaved organisations and concurrent clients against the real handlers of dashboards, folders, saved queries, index aliases, lookup files, contact points and alerts, compared operation by operation with a keyed-store reference model; (C) crash-point enumeration inside the operations of the file-backed stores: the process exits after a mutating fs call of an operation, the next incarnation boots and reads everything back",
   text="A: simulated minutes cost milliseconds, so 5-21 minute alert histories (1-3 concurrent alerts, 8 query shapes, 5 conditions, interval 1-3 min, window N x interval) run against the real gocron scheduler, sqlite store, query engine and notification handler; every history row must follow Firing iff all of the last N outcomes held / Pending iff the latest but not all / Normal otherwise; evaluations once per interval (also after a restart); notifications exactly one per Firing evaluation (cool-down is 0 in this store), one on return to Normal after a delivered Firing. B: 15-120 operation histories over a per-run subset of seven stores and 1-3 organisations, with repeated and unusual names, stale and foreign ids, restarts (killed or graceful) at seeded positions followed by a full read-back, and a phase of 2-4 concurrent clients owning disjoint objects under seeded pre-emption; an operation is applied to the model iff the node acknowledged it, valid operations must be acknowledged and invalid ones refused, every read/list must equal the model, foreign organisations must not be able to change an object. C: for seeded histories over dashboards/folders, saved queries, aliases and lookup files every mutating fs call made by the operations (quick: 30 sampled per history, thorough: all) is a crash point; afterwards the node must start, the operation in flight may or may not have taken effect, and every other object must read back as last acknowledged.",
   note=TRUST + " Metric alerts are not driven. An ungrouped sum/min/max/avg over an empty window is left undefined (engine answers 0, SPL null). sqlite does its own real file I/O outside the disk seam, so crashes inside contact/alert operations are not enumerated (they are restarted at operation boundaries); crashes inside the file-backed stores are (part C). Organisations other than 0 are reached through the handlers' myid parameter. Lookup files go through the real HTTP route."),
 "C01": dict(level="exploration", ref="DESIGN.md §4 C01",
   technique="deterministic simulation: seeded ingest/flush/rotate/restart histories on the real node under the seeded scheduler, checked against an event-set reference model",
   text="Seeded search over ingest histories (batching, flush, forced rotation, idle-timer flush, graceful restart, swarm knobs) executed by the real writer/reader/query code inside a deterministic simulator; after every flush-completing step the match-all result must equal the model's event multiset field by field. Exploration is the right level: the space of histories x JSON shapes is unbounded.",
   note=TRUST + " Not generated: duplicate keys, keys containing dots, integers above int64. Interpretation: every value of a mixed-type column may come back in canonical text form (the statement's relaxation applied to the whole column)."),
}

not_applicable = {
 "C02": "pure function of (filter expression, stored values): no schedule, clock, fault or interleaving to simulate; the layout-dependent part (pruning) is decided under C03",
}

pending = "check not built yet in this session (work in progress; will be claimed when its simulator workload and oracle exist)"

props = [json.loads(l)["id"] for l in open(os.path.join(root, "properties.jsonl"))]
m = {
 "version": 1,
 "setup_cmd": "bin/setup.sh",
 "hooks": {
  "guard": "verifsim",
  "enable": "bin/simbuild: rewriter(/repo working tree) -> overlay.json; go1.26.8 test -c -overlay overlay.json (no hook is committed to /repo; the overlay is generated at check time)",
  "baseline_off_cmd": "bin/baseline_off.sh",
  "source_commits": [],
  "add_only": True,
 },
 "engines": [{
  "name": "simlens",
  "path": "sim/",
  "serves_properties": sorted(checks.keys()),
  "kind_free_text": "deterministic whole-node simulator: synctest fake clock + seeded cooperative scheduler + simulated disk/network seams injected by a build-time AST rewriter; process-per-incarnation crash model; reference-model oracles; plan shrinking and replay",
 }],
 "checks": [],
 "not_applicable": [],
 "notes": "All checks: bin/check <ID> --tier quick|thorough; replay: bin/check <ID> --replay <file>. Exit 0 held / 1 VIOLATION / 2 build or harness trouble. VERIF_SEED selects the PRNG stream; VERIF_REPO (default /repo) selects the tree that is rebuilt.",
}
for pid in props:
    if pid in checks:
        c = checks[pid]
        m["checks"].append({
         "property_id": pid,
         "quick_cmd": f"bin/check {pid} --tier quick",
         "thorough_cmd": f"bin/check {pid} --tier thorough",
         "evidence_file": f"evidence/{pid}.json",
         "replay_cmd_template": f"bin/check {pid} --replay {{path}}",
         "engine": "simlens",
         "level_claimed": {"category": c["level"], "text": c["text"], "design_ref": c["ref"]},
         "level_note": c["note"],
         "technique": c["technique"],
        })
    else:
        m["not_applicable"].append({"property_id": pid, "reason": not_applicable.get(pid, pending)})
json.dump(m, open(os.path.join(root, "MANIFEST.json"), "w"), indent=1)
print("MANIFEST.json:", len(m["checks"]), "checks,", len(m["not_applicable"]), "not claimed")
