#!/usr/bin/env python3
# gentable.py: the quick-tier table of DESIGN.md §10 from evidence/*.json (prints markdown rows; with --write it
# replaces the rows of the table in DESIGN.md).
import json, glob, sys, re, os
root = os.path.dirname(os.path.dirname(os.path.abspath(__file__)))
def dur(s):
    if s >= 3600: return f"{s/3600:.1f} h"
    if s >= 60: return f"{s/60:.0f} min"
    return f"{s:.0f} s"
rows = []
for f in sorted(glob.glob(root + "/evidence/C*.json")):
    d = json.load(open(f)); c = d["coverage"]
    ev = c.get("evaluations", 0); wall = d.get("wall_s", 1) or 1
    rph = ev / wall * 3600
    rph = f"{rph/1000:.0f} k" if rph >= 1000 else f"{rph:.0f}"
    sim = c.get("sim_time_covered_s", 0) or 0
    fc = c.get("fault_counts") or {}
    top = ", ".join(f"{v} {k.replace('_', ' ')}" for k, v in sorted(fc.items(), key=lambda kv: -kv[1])[:4])
    rows.append(f"| {d['property_id']} | {ev} | {c.get('distinct_nontrivial', 0)} | {rph} | {dur(sim) if sim else '-'} | {c.get('distinct_interleavings', 0)} | {top} | {c.get('determinism_rechecks', 0)}/{c.get('determinism_mismatches', 0)} |")
if "--write" in sys.argv:
    p = root + "/DESIGN.md"; s = open(p).read()
    head = "| id | runs | distinct non-trivial | runs/hour | simulated time covered | distinct interleavings | faults / perturbations fired (top) | determinism re-checks / mismatches |\n|---|---|---|---|---|---|---|---|\n"
    i = s.index(head) + len(head); j = s.index("\n\n", i)
    open(p, "w").write(s[:i] + "\n".join(rows) + s[j:])
else:
    print("\n".join(rows))
