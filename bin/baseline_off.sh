#!/bin/bash
# The repository's pinned suite with the guard off. Nothing of the simulator is committed to /repo, so
# "guard off" is simply the plain tree: this runs the baseline command of /root/.vp/BASELINE.json shape.
set -uo pipefail
cd "${VERIF_REPO:-/repo}"
export GOFLAGS=-mod=mod GOPROXY=off GOSUMDB=off
go test -vet=off -count=1 -timeout 25m ./...
