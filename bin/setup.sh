#!/bin/bash
# Run once after a fresh restore, offline: builds the rewriter, the simulated node for /repo's current
# tree and the check driver from files on disk only.
set -uo pipefail
. "$(dirname "$0")/env.sh"
cd "$VERIF_ROOT"
"$VERIF_ROOT/bin/simbuild" >/dev/null || exit 2
"$VERIF_ROOT/bin/drvbuild" >/dev/null || exit 2
echo "setup ok"
