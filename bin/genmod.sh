#!/bin/bash
# genmod.sh <repo> <outdir>: writes <outdir>/go.mod and go.sum for the harness module (module simlens),
# carrying <repo>/go.mod's require blocks so that module resolution works offline.
set -euo pipefail
repo="$1"; out="$2"
mkdir -p "$out"
{
  echo "module simlens"
  echo
  echo "go 1.26.8"
  echo
  echo "require github.com/siglens/siglens v0.0.0"
  echo "replace github.com/siglens/siglens => $repo"
  # require / replace / exclude blocks of the repo's go.mod, without module/go/toolchain lines
  awk '/^module /{next} /^go /{next} /^toolchain /{next} {print}' "$repo/go.mod"
} > "$out/go.mod"
cp "$repo/go.sum" "$out/go.sum"
