# sourced by every script: offline Go environment
export GOFLAGS=-mod=mod GOPROXY=off GOSUMDB=off GOTOOLCHAIN=local CGO_ENABLED=1
export VERIF_ROOT="${VERIF_ROOT:-$(cd "$(dirname "${BASH_SOURCE[0]}")/.." && pwd)}"
export VERIF_REPO="${VERIF_REPO:-/repo}"
export VERIF_CACHE="${VERIF_CACHE:-$VERIF_ROOT/.cache}"
mkdir -p "$VERIF_CACHE"
