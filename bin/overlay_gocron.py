#!/usr/bin/env python3
# overlay_gocron.py <repo> <tmpdir>: copies the gocron module to <tmpdir>/gocron with the one `go` statement
# that starts a job run routed through simrt.Go (rule R1 applied to a third-party file) and adds a `replace`
# for it to <tmpdir>/go.mod (the go command refuses overlays for files in the module cache). The executor goroutine
# creates the job goroutines one after the other, so as simulator tasks they get their identities in creation
# order; left as foreign goroutines, two jobs due at the same instant were adopted in a racy order.
# Exit 2 when the expected text is not found (never a verdict).
import json, os, subprocess, sys
repo, tmp = sys.argv[1], sys.argv[2]
env = dict(os.environ, GOFLAGS="-mod=mod", GOPROXY="off", GOSUMDB="off")
d = subprocess.check_output(["go", "list", "-m", "-f", "{{.Dir}}", "github.com/go-co-op/gocron"], cwd=repo, env=env).decode().strip()
src = os.path.join(d, "executor.go")
s = open(src).read()
old_head = "\t\t\te.jobsWg.Add(1)\n\t\t\tgo func() {\n\t\t\t\tdefer e.jobsWg.Done()\n"
old_tail = "\t\t\t\te.runJob(f)\n\t\t\t}()\n"
if s.count(old_head) != 1 or s.count(old_tail) != 1 or 'import (\n' not in s:
    sys.stderr.write("overlay_gocron: executor.go does not have the expected shape\n")
    sys.exit(2)
s = s.replace(old_head, "\t\t\te.jobsWg.Add(1)\n\t\t\tsimrt.Go(\"gocron.executor.job\", func() {\n\t\t\t\tdefer e.jobsWg.Done()\n")
s = s.replace(old_tail, "\t\t\t\te.runJob(f)\n\t\t\t})\n")
s = s.replace('import (\n', 'import (\n\t"simlens/simrt"\n', 1)
import shutil
dst = os.path.join(tmp, "gocron")
shutil.copytree(d, dst)
for root, dirs, files in os.walk(dst):
    os.chmod(root, 0o755)
    for f in files:
        os.chmod(os.path.join(root, f), 0o644)
open(os.path.join(dst, "executor.go"), "w").write(s)
# Timers of jobs that fall due at the same instant (every alert is re-registered in the same millisecond at
# boot) run their callbacks concurrently and hand the jobs to the executor in a racy order. Each timer gets a
# distinct skew of 1..999 microseconds in registration order, so coincident timers fire one after the other -
# as real timers do.
sp = os.path.join(dst, "scheduler.go")
sch = open(sp).read()
old_t = "\tjob.setTimer(s.timer(nr, func() {\n"
if sch.count(old_t) != 1 or "import (\n" not in sch:
    sys.stderr.write("overlay_gocron: scheduler.go does not have the expected shape\n")
    sys.exit(2)
sch = sch.replace(old_t, "\tjob.setTimer(s.timer(nr+simSkew(), func() {\n")
sch = sch.replace("import (\n", "import (\n\tsimatomic \"sync/atomic\"\n", 1)
sch += """
var simSkewCtr simatomic.Int64

func simSkew() time.Duration { return time.Duration(simSkewCtr.Add(1)%999+1) * time.Microsecond }
"""
open(sp, "w").write(sch)
with open(os.path.join(tmp, "go.mod"), "a") as f:
    f.write("\nreplace github.com/go-co-op/gocron => %s\n" % dst)
