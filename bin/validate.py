#!/usr/bin/env python3-vt
import json, jsonschema, glob, sys
m = json.load(open('/verif/MANIFEST.json'))
jsonschema.validate(m, json.load(open('/root/.vp/MANIFEST.schema.json')))
es = json.load(open('/root/.vp/EVIDENCE.schema.json'))
bad = 0
for c in m['checks']:
    f = '/verif/' + c['evidence_file']
    try:
        e = json.load(open(f))
        jsonschema.validate(e, es)
        assert e['level'] == c['level_claimed']['category'], "level mismatch"
    except Exception as ex:
        print("BAD", f, str(ex)[:200]); bad += 1
print("manifest valid;", len(m['checks']), "checks;", bad, "bad evidence files")
sys.exit(1 if bad else 0)
