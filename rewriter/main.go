// rewriter: build-time seam injection for the siglens simulator.
//
// It type-checks every non-test package of the module rooted at -repo and writes, for each file it
// changes, a rewritten copy under -out plus one overlay.json for `go build -overlay`. Nothing is
// written into the repository. Rules (see DESIGN.md §3.2): R1 go statements, R2 sync types, R3 channel
// operations, R4 time.Sleep, R5 os file API, R6 map iteration order, R7 package-level objects owning
// channels/timers, R8 network, R10 stubbed bodies, R11 GOMAXPROCS reads, R12 timer ties.
// On any construct inside a rule's scope that it does not recognise it exits 2 (never a silent skip).
package main

import (
	"bytes"
	"encoding/json"
	"flag"
	"fmt"
	"go/ast"
	"go/printer"
	"go/token"
	"go/types"
	"os"
	"path/filepath"
	"sort"
	"strings"

	"golang.org/x/tools/go/ast/astutil"
	"golang.org/x/tools/go/packages"
)

const (
	rtPath  = "simlens/simrt"
	fsPath  = "simlens/simfs"
	netPath = "simlens/simnet"
)

var (
	repo     = flag.String("repo", "/repo", "module root to rewrite")
	out      = flag.String("out", "", "output directory for rewritten files and overlay.json")
	noSched  = flag.Bool("nosched", false, "skip R1-R4/R6 (debugging)")
	counts   = map[string]int{}
	failures []string
)

var osFuncs = map[string]bool{
	"OpenFile": true, "Open": true, "Create": true, "CreateTemp": true, "ReadFile": true, "WriteFile": true,
	"Rename": true, "Remove": true, "RemoveAll": true, "Mkdir": true, "MkdirAll": true, "Stat": true,
	"Lstat": true, "ReadDir": true, "Truncate": true, "File": true,
}

// os identifiers that are fine to leave alone
var osKeep = map[string]bool{
	"O_CREATE": true, "O_WRONLY": true, "O_RDONLY": true, "O_TRUNC": true, "O_APPEND": true, "O_RDWR": true,
	"O_EXCL": true, "O_SYNC": true, "IsNotExist": true, "IsExist": true, "ErrNotExist": true, "ErrExist": true,
	"Getenv": true, "Exit": true, "FileMode": true, "FileInfo": true, "ModePerm": true, "Interrupt": true,
	"LookupEnv": true, "Hostname": true, "Getwd": true, "Stdout": true, "Stderr": true, "Signal": true,
	"Kill": true, "DirEntry": true, "PathError": true, "Getpid": true, "Args": true, "Setenv": true,
	"ErrPermission": true, "IsPermission": true, "PathSeparator": true, "Stdin": true, "Environ": true,
	"ErrClosed": true, "SEEK_SET": true, "TempDir": true, "Executable": true, "ModeDir": true, "Unsetenv": true,
	"UserHomeDir": true, "Getuid": true, "ExpandEnv": true, "SameFile": true, "ErrInvalid": true, "ErrDeadlineExceeded": true,
}

var syncTypes = map[string]bool{"Mutex": true, "RWMutex": true, "WaitGroup": true, "Once": true}
var syncKeep = map[string]bool{"Pool": true, "Map": true, "Locker": true}

// R10: functions whose bodies are emptied (third-party telemetry that would open real sockets).
var stubBodies = map[string]bool{
	"github.com/siglens/siglens/pkg/ssa.InitSsa": true,
	"github.com/siglens/siglens/pkg/ssa.StopSsa": true,
}

func fail(fset *token.FileSet, pos token.Pos, format string, a ...interface{}) {
	failures = append(failures, fmt.Sprintf("%s: %s", fset.Position(pos), fmt.Sprintf(format, a...)))
}

func main() {
	flag.Parse()
	if *out == "" {
		fmt.Fprintln(os.Stderr, "rewriter: -out required")
		os.Exit(2)
	}
	absRepo, _ := filepath.Abs(*repo)
	cfg := &packages.Config{
		Mode: packages.NeedName | packages.NeedFiles | packages.NeedCompiledGoFiles | packages.NeedSyntax |
			packages.NeedTypes | packages.NeedTypesInfo | packages.NeedImports | packages.NeedDeps,
		Dir:   absRepo,
		Tests: false,
		Env:   append(os.Environ(), "GOFLAGS=-mod=mod", "GOPROXY=off", "GOSUMDB=off", "CGO_ENABLED=1"),
	}
	pkgs, err := packages.Load(cfg, "./...")
	if err != nil {
		fmt.Fprintf(os.Stderr, "rewriter: load: %v\n", err)
		os.Exit(2)
	}
	nerr := 0
	packages.Visit(pkgs, nil, func(p *packages.Package) {
		if !strings.HasPrefix(p.PkgPath, "github.com/siglens/siglens") {
			return
		}
		for _, e := range p.Errors {
			fmt.Fprintf(os.Stderr, "rewriter: %s: %v\n", p.PkgPath, e)
			nerr++
		}
	})
	if nerr > 0 {
		os.Exit(2)
	}
	overlay := map[string]string{}
	if err := os.MkdirAll(*out, 0o755); err != nil {
		fmt.Fprintln(os.Stderr, err)
		os.Exit(2)
	}
	sort.Slice(pkgs, func(i, j int) bool { return pkgs[i].PkgPath < pkgs[j].PkgPath })
	for _, p := range pkgs {
		if !strings.HasPrefix(p.PkgPath, "github.com/siglens/siglens") {
			continue
		}
		for i, f := range p.Syntax {
			fname := p.CompiledGoFiles[i]
			if !strings.HasPrefix(fname, absRepo) || strings.HasSuffix(fname, "_test.go") {
				continue
			}
			rw := &fileRewriter{pkg: p, file: f, fset: p.Fset, relName: strings.TrimPrefix(fname, absRepo+"/")}
			if rw.rewrite() {
				var buf bytes.Buffer
				f.Comments = nil // positions of comments are meaningless after the rewrite
				if err := printer.Fprint(&buf, p.Fset, f); err != nil {
					fmt.Fprintf(os.Stderr, "rewriter: print %s: %v\n", fname, err)
					os.Exit(2)
				}
				dst := filepath.Join(*out, "ov", rw.relName)
				if err := os.MkdirAll(filepath.Dir(dst), 0o755); err != nil {
					fmt.Fprintln(os.Stderr, err)
					os.Exit(2)
				}
				if err := os.WriteFile(dst, buf.Bytes(), 0o644); err != nil {
					fmt.Fprintln(os.Stderr, err)
					os.Exit(2)
				}
				overlay[fname] = dst
			}
		}
	}
	if len(failures) > 0 {
		for _, f := range failures {
			fmt.Fprintf(os.Stderr, "rewriter: unsupported construct: %s\n", f)
		}
		os.Exit(2)
	}
	ob, _ := json.MarshalIndent(map[string]interface{}{"Replace": overlay}, "", " ")
	if err := os.WriteFile(filepath.Join(*out, "overlay.json"), ob, 0o644); err != nil {
		fmt.Fprintln(os.Stderr, err)
		os.Exit(2)
	}
	cb, _ := json.MarshalIndent(counts, "", " ")
	_ = os.WriteFile(filepath.Join(*out, "rewrite_counts.json"), cb, 0o644)
	fmt.Printf("rewriter: %d files rewritten; %s\n", len(overlay), strings.ReplaceAll(string(cb), "\n", ""))
}

type fileRewriter struct {
	pkg     *packages.Package
	file    *ast.File
	fset    *token.FileSet
	relName string
	changed bool
	needRT  bool
	needFS  bool
	needNet bool
	uniq    int
}

func (rw *fileRewriter) info() *types.Info { return rw.pkg.TypesInfo }

func (rw *fileRewriter) site(pos token.Pos) string {
	p := rw.fset.Position(pos)
	return fmt.Sprintf("%s:%d", rw.relName, p.Line)
}

func (rw *fileRewriter) name(prefix string) string {
	rw.uniq++
	return fmt.Sprintf("_sim%s%d", prefix, rw.uniq)
}

// pkgOf returns the import path if id names an imported package.
func (rw *fileRewriter) pkgOf(e ast.Expr) string {
	id, ok := e.(*ast.Ident)
	if !ok {
		return ""
	}
	if pn, ok := rw.info().Uses[id].(*types.PkgName); ok {
		return pn.Imported().Path()
	}
	return ""
}

func rtCall(fn string, args ...ast.Expr) *ast.CallExpr {
	return &ast.CallExpr{Fun: &ast.SelectorExpr{X: ast.NewIdent("simrt"), Sel: ast.NewIdent(fn)}, Args: args}
}

func strLit(s string) *ast.BasicLit {
	return &ast.BasicLit{Kind: token.STRING, Value: fmt.Sprintf("%q", s)}
}

func (rw *fileRewriter) rewrite() bool {
	rw.passExpr()
	if !*noSched {
		rw.passMapRange()
		rw.passChan()
		rw.passGo()
	}
	rw.passReinit()
	if !rw.changed {
		return false
	}
	if rw.needRT {
		astutil.AddNamedImport(rw.fset, rw.file, "simrt", rtPath)
	}
	if rw.needFS {
		astutil.AddNamedImport(rw.fset, rw.file, "simfs", fsPath)
	}
	if rw.needNet {
		astutil.AddNamedImport(rw.fset, rw.file, "simnet", netPath)
	}
	// drop imports that became unused
	for _, path := range []string{"sync", "os", "runtime", "net", "net/smtp", "syscall", "path/filepath", "time", "net/http"} {
		if !usesImportByScan(rw.file, rw.info(), path) {
			for _, imp := range rw.file.Imports {
				if strings.Trim(imp.Path.Value, `"`) == path {
					if imp.Name != nil {
						astutil.DeleteNamedImport(rw.fset, rw.file, imp.Name.Name, path)
					} else {
						astutil.DeleteImport(rw.fset, rw.file, path)
					}
				}
			}
		}
	}
	return true
}

// usesImportByScan reports whether any remaining identifier still refers to the import path. New nodes
// have no type info, so fall back to name matching for them.
func usesImportByScan(f *ast.File, info *types.Info, path string) bool {
	localName := ""
	for _, imp := range f.Imports {
		if strings.Trim(imp.Path.Value, `"`) == path {
			if imp.Name != nil {
				localName = imp.Name.Name
			} else {
				localName = path[strings.LastIndex(path, "/")+1:]
			}
		}
	}
	if localName == "" || localName == "_" || localName == "." {
		return true
	}
	used := false
	ast.Inspect(f, func(n ast.Node) bool {
		if used {
			return false
		}
		if sel, ok := n.(*ast.SelectorExpr); ok {
			if id, ok := sel.X.(*ast.Ident); ok && id.Name == localName {
				if obj, known := info.Uses[id]; known {
					if pn, ok := obj.(*types.PkgName); ok && pn.Imported().Path() == path {
						used = true
					}
				} else if id.Obj == nil {
					used = true
				}
			}
		}
		return true
	})
	return used
}

// ---- pass 1: expression-level substitutions (R2, R4, R5, R8, R10, R11) ---------------------------

func (rw *fileRewriter) passExpr() {
	// R10 first: empty bodies
	for _, d := range rw.file.Decls {
		if fd, ok := d.(*ast.FuncDecl); ok && fd.Recv == nil && fd.Body != nil {
			if stubBodies[rw.pkg.PkgPath+"."+fd.Name.Name] {
				fd.Body.List = nil
				rw.changed = true
				counts["R10_stub"]++
			}
		}
	}
	// R12: two timer channels created by one function (two tickers read by one select) must never come due at
	// the same instant: which case of a select runs when both are ready is the Go runtime's coin, not the
	// simulator's. The second and later constructors of a function get a fixed sub-millisecond offset.
	if !*noSched {
		for _, d := range rw.file.Decls {
			fd, ok := d.(*ast.FuncDecl)
			if !ok || fd.Body == nil {
				continue
			}
			k := 0
			ast.Inspect(fd.Body, func(n ast.Node) bool {
				ce, ok := n.(*ast.CallExpr)
				if !ok || len(ce.Args) != 1 {
					return true
				}
				sel, ok := ce.Fun.(*ast.SelectorExpr)
				if !ok || rw.pkgOf(sel.X) != "time" {
					return true
				}
				switch sel.Sel.Name {
				case "NewTicker", "NewTimer", "After", "Tick":
					if k > 0 {
						ce.Args[0] = &ast.BinaryExpr{X: &ast.ParenExpr{X: ce.Args[0]}, Op: token.ADD,
							Y: &ast.CallExpr{Fun: &ast.SelectorExpr{X: sel.X, Sel: ast.NewIdent("Duration")},
								Args: []ast.Expr{&ast.BasicLit{Kind: token.INT, Value: fmt.Sprint(k * 104729)}}}}
						rw.changed = true
						counts["R12_timer_skew"]++
					}
					k++
				}
				return true
			})
		}
	}
	astutil.Apply(rw.file, func(c *astutil.Cursor) bool {
		switch n := c.Node().(type) {
		case *ast.SelectorExpr:
			pk := rw.pkgOf(n.X)
			switch pk {
			case "sync":
				if !*noSched && syncTypes[n.Sel.Name] {
					n.X = ast.NewIdent("simrt")
					rw.changed, rw.needRT = true, true
					counts["R2_sync"]++
				} else if !syncKeep[n.Sel.Name] && !syncTypes[n.Sel.Name] {
					fail(rw.fset, n.Pos(), "sync.%s", n.Sel.Name)
				}
			case "os":
				if osFuncs[n.Sel.Name] {
					n.X = ast.NewIdent("simfs")
					rw.changed, rw.needFS = true, true
					counts["R5_os"]++
				} else if !osKeep[n.Sel.Name] {
					fail(rw.fset, n.Pos(), "os.%s", n.Sel.Name)
				}
			case "path/filepath":
				if n.Sel.Name == "Walk" {
					n.X = ast.NewIdent("simfs")
					rw.changed, rw.needFS = true, true
					counts["R5_walk"]++
				} else if n.Sel.Name == "WalkDir" || n.Sel.Name == "Glob" {
					fail(rw.fset, n.Pos(), "filepath.%s", n.Sel.Name)
				}
			case "syscall":
				if n.Sel.Name == "Flock" || n.Sel.Name == "Statfs" {
					n.X = ast.NewIdent("simfs")
					rw.changed, rw.needFS = true, true
					counts["R5_syscall"]++
				}
			case "io/ioutil":
				switch n.Sel.Name {
				case "ReadAll", "Discard", "NopCloser":
				default:
					fail(rw.fset, n.Pos(), "ioutil.%s", n.Sel.Name)
				}
			case "time":
				if !*noSched && n.Sel.Name == "Sleep" {
					n.X = ast.NewIdent("simrt")
					rw.changed, rw.needRT = true, true
					counts["R4_sleep"]++
				}
			case "net":
				if n.Sel.Name == "Listen" {
					n.X = ast.NewIdent("simnet")
					rw.changed, rw.needNet = true, true
					counts["R8_listen"]++
				} else if strings.HasPrefix(n.Sel.Name, "Dial") {
					fail(rw.fset, n.Pos(), "net.%s", n.Sel.Name)
				}
			case "net/http":
				switch n.Sel.Name {
				case "ListenAndServe", "Get":
					n.X = ast.NewIdent("simnet")
					rw.changed, rw.needNet = true, true
					counts["R8_http"]++
				case "Post", "PostForm", "Head", "ListenAndServeTLS":
					fail(rw.fset, n.Pos(), "http.%s", n.Sel.Name)
				}
			case "net/smtp":
				if n.Sel.Name == "SendMail" {
					n.X = ast.NewIdent("simnet")
					rw.changed, rw.needNet = true, true
					counts["R8_smtp"]++
				}
			}
		case *ast.CallExpr:
			// R11 runtime.GOMAXPROCS(0)
			if sel, ok := n.Fun.(*ast.SelectorExpr); ok {
				if rw.pkgOf(sel.X) == "runtime" && sel.Sel.Name == "GOMAXPROCS" && len(n.Args) == 1 {
					if bl, ok := n.Args[0].(*ast.BasicLit); ok && bl.Value == "0" {
						c.Replace(rtCall("Procs"))
						rw.changed, rw.needRT = true, true
						counts["R11_procs"]++
						return false
					}
				}
				// R8 (*http.Client).Do
				if sel.Sel.Name == "Do" && len(n.Args) == 1 {
					if t := rw.info().TypeOf(sel.X); t != nil {
						if strings.TrimPrefix(t.String(), "*") == "net/http.Client" {
							recv := sel.X
							if !strings.HasPrefix(t.String(), "*") {
								recv = &ast.UnaryExpr{Op: token.AND, X: sel.X}
							}
							c.Replace(&ast.CallExpr{Fun: &ast.SelectorExpr{X: ast.NewIdent("simnet"), Sel: ast.NewIdent("Do")}, Args: []ast.Expr{recv, n.Args[0]}})
							rw.changed, rw.needNet = true, true
							counts["R8_do"]++
							return false
						}
					}
				}
			}
		}
		return true
	}, nil)
}

// ---- pass 2: R6 deterministic map iteration ---------------------------------------------------

func (rw *fileRewriter) isMapRange(rs *ast.RangeStmt) bool {
	t := rw.info().TypeOf(rs.X)
	if t == nil {
		return false
	}
	if _, isTP := t.(*types.TypeParam); isTP {
		counts["R6_skipped_typeparam"]++
		return false
	}
	m, ok := t.Underlying().(*types.Map)
	if !ok {
		return false
	}
	switch k := m.Key().Underlying().(type) {
	case *types.Basic:
		if k.Info()&types.IsFloat != 0 || k.Info()&types.IsComplex != 0 {
			counts["R6_skipped_floatkey"]++
			return false
		}
	case *types.Pointer, *types.Chan:
		counts["R6_skipped_ptrkey"]++
		return false
	case *types.Interface:
		// any/interface keys: ordered by dynamic type and value
	}
	return true
}

func (rw *fileRewriter) passMapRange() {
	astutil.Apply(rw.file, nil, func(c *astutil.Cursor) bool {
		var rs *ast.RangeStmt
		var labeled *ast.LabeledStmt
		switch n := c.Node().(type) {
		case *ast.RangeStmt:
			if _, ok := c.Parent().(*ast.LabeledStmt); ok {
				return true // handled at the LabeledStmt
			}
			rs = n
		case *ast.LabeledStmt:
			r, ok := n.Stmt.(*ast.RangeStmt)
			if !ok {
				return true
			}
			rs, labeled = r, n
		default:
			return true
		}
		if !rw.isMapRange(rs) {
			return true
		}
		if c.Index() < 0 {
			fail(rw.fset, rs.Pos(), "map range statement not in a statement list")
			return true
		}
		_ = labeled
		mName, kName, okName := rw.name("m"), rw.name("k"), rw.name("ok")
		hoist := &ast.AssignStmt{Lhs: []ast.Expr{ast.NewIdent(mName)}, Tok: token.DEFINE, Rhs: []ast.Expr{rs.X}}
		var prelude []ast.Stmt
		keyIsBlank := rs.Key == nil || isBlank(rs.Key)
		valIsBlank := rs.Value == nil || isBlank(rs.Value)
		loopKey := kName
		define := rs.Tok == token.DEFINE
		if !keyIsBlank && define {
			loopKey = rs.Key.(*ast.Ident).Name
		}
		idx := func() ast.Expr {
			return &ast.IndexExpr{X: ast.NewIdent(mName), Index: ast.NewIdent(loopKey)}
		}
		if !keyIsBlank && !define {
			prelude = append(prelude, &ast.AssignStmt{Lhs: []ast.Expr{rs.Key}, Tok: token.ASSIGN, Rhs: []ast.Expr{ast.NewIdent(loopKey)}})
		}
		cont := &ast.IfStmt{Cond: &ast.UnaryExpr{Op: token.NOT, X: ast.NewIdent(okName)}, Body: &ast.BlockStmt{List: []ast.Stmt{&ast.BranchStmt{Tok: token.CONTINUE}}}}
		if valIsBlank {
			prelude = append(prelude, &ast.AssignStmt{Lhs: []ast.Expr{ast.NewIdent("_"), ast.NewIdent(okName)}, Tok: token.DEFINE, Rhs: []ast.Expr{idx()}}, cont)
		} else if define {
			prelude = append(prelude, &ast.AssignStmt{Lhs: []ast.Expr{rs.Value, ast.NewIdent(okName)}, Tok: token.DEFINE, Rhs: []ast.Expr{idx()}}, cont)
		} else {
			prelude = append(prelude,
				&ast.DeclStmt{Decl: &ast.GenDecl{Tok: token.VAR, Specs: []ast.Spec{&ast.ValueSpec{Names: []*ast.Ident{ast.NewIdent(okName)}, Type: ast.NewIdent("bool")}}}},
				&ast.AssignStmt{Lhs: []ast.Expr{rs.Value, ast.NewIdent(okName)}, Tok: token.ASSIGN, Rhs: []ast.Expr{idx()}}, cont)
		}
		// keep the compiler quiet when the body never uses the value / key
		rs.Key = ast.NewIdent("_")
		rs.Value = ast.NewIdent(loopKey)
		rs.Tok = token.DEFINE
		rs.X = rtCall("Keys", ast.NewIdent(mName))
		if !valIsBlank && define {
			if id, ok := prelude[0].(*ast.AssignStmt).Lhs[0].(*ast.Ident); ok {
				prelude = append(prelude, &ast.AssignStmt{Lhs: []ast.Expr{ast.NewIdent("_")}, Tok: token.ASSIGN, Rhs: []ast.Expr{ast.NewIdent(id.Name)}})
			}
		}
		if !keyIsBlank && define {
			prelude = append(prelude, &ast.AssignStmt{Lhs: []ast.Expr{ast.NewIdent("_")}, Tok: token.ASSIGN, Rhs: []ast.Expr{ast.NewIdent(loopKey)}})
		}
		rs.Body.List = append(prelude, rs.Body.List...)
		c.InsertBefore(hoist)
		rw.changed, rw.needRT = true, true
		counts["R6_maprange"]++
		return true
	})
}

func isBlank(e ast.Expr) bool {
	id, ok := e.(*ast.Ident)
	return ok && id.Name == "_"
}

// ---- pass 3: R3 channel operations --------------------------------------------------------------

// hasChanOp reports whether the statement itself (not nested blocks, not function literals) performs a
// channel receive.
func (rw *fileRewriter) exprHasRecv(e ast.Node) bool {
	found := false
	ast.Inspect(e, func(n ast.Node) bool {
		if found {
			return false
		}
		switch x := n.(type) {
		case *ast.FuncLit:
			return false
		case *ast.UnaryExpr:
			if x.Op == token.ARROW {
				found = true
				return false
			}
		}
		return true
	})
	return found
}

func (rw *fileRewriter) isChanRange(rs *ast.RangeStmt) bool {
	t := rw.info().TypeOf(rs.X)
	if t == nil {
		return false
	}
	_, ok := t.Underlying().(*types.Chan)
	return ok
}

func (rw *fileRewriter) yieldStmt(pos token.Pos) ast.Stmt {
	rw.needRT = true
	return &ast.ExprStmt{X: rtCall("Yield", strLit(rw.site(pos)))}
}

func (rw *fileRewriter) parkStmt(pos token.Pos) ast.Stmt {
	rw.needRT = true
	return &ast.ExprStmt{X: rtCall("Park", strLit(rw.site(pos)))}
}

func (rw *fileRewriter) passChan() {
	astutil.Apply(rw.file, nil, func(c *astutil.Cursor) bool {
		st, ok := c.Node().(ast.Stmt)
		if !ok {
			return true
		}
		inList := c.Index() >= 0
		if _, isLabeled := c.Parent().(*ast.LabeledStmt); isLabeled {
			// the labelled statement is handled through its label (which sits in the list)
			return true
		}
		target := st
		if ls, ok := st.(*ast.LabeledStmt); ok {
			target = ls.Stmt
		}
		pos := target.Pos()
		switch s := target.(type) {
		case *ast.SendStmt:
			if !inList {
				if _, inComm := c.Parent().(*ast.CommClause); inComm {
					return true // select case: handled by the SelectStmt
				}
				fail(rw.fset, pos, "send statement outside a statement list")
				return true
			}
			c.InsertBefore(rw.yieldStmt(pos))
			c.InsertAfter(rw.parkStmt(pos))
			rw.changed = true
			counts["R3_send"]++
		case *ast.ExprStmt, *ast.AssignStmt, *ast.DeclStmt, *ast.IncDecStmt:
			if !rw.exprHasRecv(s) {
				return true
			}
			if !inList {
				if _, inComm := c.Parent().(*ast.CommClause); inComm {
					return true
				}
				fail(rw.fset, pos, "receive in a statement outside a statement list (%T)", c.Parent())
				return true
			}
			c.InsertBefore(rw.yieldStmt(pos))
			c.InsertAfter(rw.parkStmt(pos))
			rw.changed = true
			counts["R3_recv"]++
		case *ast.ReturnStmt:
			if rw.exprHasRecv(s) {
				if !inList {
					fail(rw.fset, pos, "return with receive outside a list")
					return true
				}
				c.InsertBefore(rw.yieldStmt(pos))
				rw.changed = true
				counts["R3_return_recv"]++
			}
		case *ast.SelectStmt:
			if !inList {
				fail(rw.fset, pos, "select outside a statement list")
				return true
			}
			c.InsertBefore(rw.yieldStmt(pos))
			for _, cl := range s.Body.List {
				cc := cl.(*ast.CommClause)
				cc.Body = append([]ast.Stmt{rw.parkStmt(cc.Pos())}, cc.Body...)
			}
			rw.changed = true
			counts["R3_select"]++
		case *ast.RangeStmt:
			if !rw.isChanRange(s) {
				return true
			}
			if !inList {
				fail(rw.fset, pos, "range over channel outside a statement list")
				return true
			}
			c.InsertBefore(rw.yieldStmt(pos))
			s.Body.List = append([]ast.Stmt{rw.parkStmt(pos)}, s.Body.List...)
			c.InsertAfter(rw.parkStmt(pos))
			rw.changed = true
			counts["R3_range"]++
		case *ast.IfStmt:
			if (s.Init != nil && rw.exprHasRecv(s.Init)) || rw.exprHasRecv(s.Cond) {
				fail(rw.fset, pos, "receive in if header")
			}
		case *ast.ForStmt:
			if (s.Init != nil && rw.exprHasRecv(s.Init)) || (s.Cond != nil && rw.exprHasRecv(s.Cond)) || (s.Post != nil && rw.exprHasRecv(s.Post)) {
				fail(rw.fset, pos, "receive in for header")
			}
		case *ast.SwitchStmt:
			if (s.Init != nil && rw.exprHasRecv(s.Init)) || (s.Tag != nil && rw.exprHasRecv(s.Tag)) {
				if !inList {
					fail(rw.fset, pos, "receive in switch header outside a list")
					return true
				}
				c.InsertBefore(rw.yieldStmt(pos))
				for _, cl := range s.Body.List {
					cc := cl.(*ast.CaseClause)
					cc.Body = append([]ast.Stmt{rw.parkStmt(cc.Pos())}, cc.Body...)
				}
				rw.changed = true
				counts["R3_switch_recv"]++
			}
		case *ast.DeferStmt:
			if rw.exprHasRecv(s.Call) {
				// only arguments are evaluated now; a receive inside a deferred closure is handled in the closure
				for _, a := range s.Call.Args {
					if rw.exprHasRecv(a) {
						fail(rw.fset, pos, "receive in defer arguments")
					}
				}
			}
		case *ast.GoStmt:
			for _, a := range s.Call.Args {
				if rw.exprHasRecv(a) {
					fail(rw.fset, pos, "receive in go arguments")
				}
			}
		}
		return true
	})
}

// ---- pass 4: R1 go statements -------------------------------------------------------------------

func (rw *fileRewriter) passGo() {
	astutil.Apply(rw.file, nil, func(c *astutil.Cursor) bool {
		gs, ok := c.Node().(*ast.GoStmt)
		if !ok {
			return true
		}
		call := gs.Call
		var pre []ast.Stmt
		// hoist the callee when it is a method value or another computed function value
		switch fn := call.Fun.(type) {
		case *ast.FuncLit:
		case *ast.Ident:
		case *ast.SelectorExpr:
			if rw.pkgOf(fn.X) == "" {
				// method value or field of function type: bind now
				if _, isType := rw.info().Types[fn.X]; isType && rw.info().Types[fn.X].IsType() {
					break // method expression T.m
				}
				n := rw.name("fn")
				pre = append(pre, &ast.AssignStmt{Lhs: []ast.Expr{ast.NewIdent(n)}, Tok: token.DEFINE, Rhs: []ast.Expr{call.Fun}})
				call.Fun = ast.NewIdent(n)
			}
		default:
			n := rw.name("fn")
			pre = append(pre, &ast.AssignStmt{Lhs: []ast.Expr{ast.NewIdent(n)}, Tok: token.DEFINE, Rhs: []ast.Expr{call.Fun}})
			call.Fun = ast.NewIdent(n)
		}
		for i, a := range call.Args {
			tv, known := rw.info().Types[a]
			if known && (tv.Value != nil || tv.IsNil() || tv.IsType()) {
				continue
			}
			if !known {
				// a node created by an earlier pass: evaluate eagerly as well
			}
			if known {
				if b, ok := tv.Type.(*types.Basic); ok && b.Info()&types.IsUntyped != 0 {
					continue
				}
				if _, ok := tv.Type.(*types.Tuple); ok {
					fail(rw.fset, a.Pos(), "go statement with multi-value argument")
					continue
				}
			}
			n := rw.name("a")
			pre = append(pre, &ast.AssignStmt{Lhs: []ast.Expr{ast.NewIdent(n)}, Tok: token.DEFINE, Rhs: []ast.Expr{a}})
			call.Args[i] = ast.NewIdent(n)
		}
		body := &ast.FuncLit{Type: &ast.FuncType{Params: &ast.FieldList{}}, Body: &ast.BlockStmt{List: []ast.Stmt{&ast.ExprStmt{X: call}}}}
		repl := &ast.BlockStmt{List: append(pre, &ast.ExprStmt{X: rtCall("Go", strLit(rw.site(gs.Pos())), body)})}
		c.Replace(repl)
		rw.changed, rw.needRT = true, true
		counts["R1_go"]++
		return true
	})
}

// ---- pass 5: R7 package-level objects that own channels / timers -----------------------------------

func ownsRuntimeObject(e ast.Expr) bool {
	found := false
	ast.Inspect(e, func(n ast.Node) bool {
		if found {
			return false
		}
		switch x := n.(type) {
		case *ast.FuncLit:
			return false
		case *ast.CallExpr:
			if id, ok := x.Fun.(*ast.Ident); ok && id.Name == "make" && len(x.Args) > 0 {
				if _, ok := x.Args[0].(*ast.ChanType); ok {
					found = true
				}
			}
			if sel, ok := x.Fun.(*ast.SelectorExpr); ok {
				switch sel.Sel.Name {
				case "NewScheduler", "NewTicker", "NewTimer", "AfterFunc":
					found = true
				}
			}
		}
		return true
	})
	return found
}

func (rw *fileRewriter) passReinit() {
	var stmts []ast.Stmt
	for _, d := range rw.file.Decls {
		gd, ok := d.(*ast.GenDecl)
		if !ok || gd.Tok != token.VAR {
			continue
		}
		for _, sp := range gd.Specs {
			vs := sp.(*ast.ValueSpec)
			if len(vs.Values) != len(vs.Names) {
				continue
			}
			for i, v := range vs.Values {
				if ownsRuntimeObject(v) && vs.Names[i].Name != "_" {
					stmts = append(stmts, &ast.AssignStmt{Lhs: []ast.Expr{ast.NewIdent(vs.Names[i].Name)}, Tok: token.ASSIGN, Rhs: []ast.Expr{v}})
					counts["R7_reinit"]++
				}
			}
		}
	}
	if len(stmts) == 0 {
		return
	}
	fn := &ast.FuncDecl{
		Name: ast.NewIdent("init"),
		Type: &ast.FuncType{Params: &ast.FieldList{}},
		Body: &ast.BlockStmt{List: []ast.Stmt{&ast.ExprStmt{X: rtCall("RegisterReinit", &ast.FuncLit{
			Type: &ast.FuncType{Params: &ast.FieldList{}}, Body: &ast.BlockStmt{List: stmts}})}}},
	}
	rw.file.Decls = append(rw.file.Decls, fn)
	rw.changed, rw.needRT = true, true
}
